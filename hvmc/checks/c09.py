"""C09 - processing has no side effects on its inputs and is repeatable.

E1: BFS over histories of

    P(kind, w)   hvsrpy.process(recordings, settings[kind, w])  - ONE settings object per
                 (processing kind, Tukey width), created on first use and then held across
                 the history; the FFT request (None / {"n": None} / {"n": 128}) is a root
                 parameter of every settings object
    Ms(field)    edit the settings object of the most recent (or first) P in place
    Mr(what)     edit a recording in place (sample, metadata, nested metadata, orientation)

on real SeismicRecording3C / settings / result objects.  Every P *transition* is judged:

 (a) every recording is bit-identical to its deep snapshot taken right before the call
     (samples, time step, orientation, metadata content, the list itself);
 (b) the result equals the result of the same call on pristine recordings (root recordings
     + the Mr edits of the history) with a pristine settings object (+ the Ms edits of the
     history) asked for the same resolved FFT length - the fresh-state differential;
 (c) the same call repeated immediately with the same settings object (on a deep clone of
     the whole state, so that the probe does not disturb the explored state) and any later
     P with the same settings object and no edit in between return an identical result;
 (d) after EVERY operation every earlier result still has the frequency, amplitude, masks,
     peaks, azimuths and metadata content it had when it was returned.

A difference in (b)/(c) is attributed to its cause so that one defect gets one key: if the
recordings the two calls saw differ (an earlier/the first call modified them) the difference
belongs to the inputs-modified finding of (a) and is only counted; else if the FFT length
changed between two calls although the request was {"n": None} it is the re-resolution
finding; else it is a generic repeatability / hidden-state finding.

Added later (roots of `_special_roots`): recordings of unequal length in one call and 300 windows in
one call (depth-1 roots of the same system), and *live histories* (`_live`): process; owner's edit
(in place or replacing, every component); process; interleaved call; process - on the very same objects,
judged against equal-valued fresh copies rebuilt from transmitted values in a process without history.
"""
import contextlib
import copy
import hashlib
import io
import json
import warnings

import numpy as np

import hvsrpy
from hvsrpy import TimeSeries, SeismicRecording3C

from hvmc import alphabets as A
from hvmc.engine import explorer
from hvmc.engine.core import digest, jsonable

PROPERTY = "C09"

L = 64
DT = 0.01
DT_NEAR = float(np.float32(0.01))
NEAR_EQUAL_DT = False       # switched on per root (root["near_dt"])
DEG = 15.0

REC_SPECS = [
    dict(ns="noise1", ew="noise2", vt="noise3",
         meta={"file name(s)": ["st01_w0.n.mseed", "st01_w0.e.mseed", "st01_w0.z.mseed"],
               "station": "ST01", "detrend": "linear", "split": 0.63,
               "coordinates": "ndarray:[12.5, -3.25, 101.0]"}),       # replaced by a numpy array in make_recordings
    dict(ns="two_sines+noise4", ew="noise5", vt="ramp+noise6",
         meta={"file name(s)": ["st01_w1.n.mseed", "st01_w1.e.mseed", "st01_w1.z.mseed"],
               "station": "ST01", "detrend": "linear", "split": 0.63}),
    dict(ns="noise7", ew="offgrid_sine+noise8", vt="noise9",
         meta={"file name(s)": ["st01_w2.n.mseed", "st01_w2.e.mseed", "st01_w2.z.mseed"],
               "station": "ST01", "detrend": "linear", "split": 0.63}),
]

FCS = [6.0, 12.0, 20.0, 28.0, 36.0, 44.0]
RDP_AZIMUTHS = [0, 45, 90, 135]
AZ_AZIMUTHS = [0, 60, 120]

FD = ["geometric_mean", "squared_average", "maximum_horizontal_value", "arithmetic_mean",
      "total_horizontal_energy"]
KINDS_QUICK = ["fd:geometric_mean", "fd:squared_average", "fd:maximum_horizontal_value",
               "single", "rotdpp", "azimuthal", "diffuse", "psd",
               "fd:arithmetic_mean@keeping_smallest_time_step", "single@keeping_majority_time_step"]
KINDS_ALL = ["fd:" + m for m in FD] + ["single", "rotdpp", "azimuthal", "diffuse", "psd",
                                       "fd:geometric_mean@keeping_smallest_time_step",
                                       "fd:squared_average@keeping_majority_time_step",
                                       "rotdpp@keeping_smallest_time_step", "diffuse@keeping_smallest_time_step",
                                       "single@keeping_majority_time_step"]
WIDTHS = [0.0, 0.1, 0.5]
FFT_REQUESTS = {"default": lambda: None, "nopad": lambda: {"n": None}, "n128": lambda: {"n": 128}}

MR_QUICK = ["sample", "meta", "meta-nested", "meta-array"]
MR_ALL = ["sample", "meta", "meta-nested", "meta-array", "sample-last", "orient"]
MS_FIELDS = ["width", "fcs", "azimuths", "fft_n"]

DATA_PARTS = ("type", "frequency", "amplitude", "masks", "peaks", "azimuths")


def _decoy():
    Ld, dtd = 48, 0.02
    recs = [SeismicRecording3C(TimeSeries(A.sig_array("noise2", Ld) + 0.3, dtd),
                               TimeSeries(A.sig_array("noise3", Ld) - 0.2, dtd),
                               TimeSeries(A.sig_array("noise1", Ld) + 0.1, dtd)) for _ in range(2)]
    sm = dict(operator="linear_rectangular", bandwidth=3.0, center_frequencies_in_hz=[4.0, 9.0])
    for cls, kw in ((hvsrpy.HvsrTraditionalProcessingSettings, dict(method_to_combine_horizontals="squared_average")),
                    (hvsrpy.HvsrDiffuseFieldProcessingSettings, {}),
                    (hvsrpy.HvsrTraditionalSingleAzimuthProcessingSettings, dict(azimuth_in_degrees=77.0))):
        try:
            hvsrpy.process(recs, cls(window_type_and_width=["tukey", 0.77], smoothing=dict(sm),
                                     fft_settings={"n": 96}, **kw))
        except Exception:       # noqa: BLE001 - a decoy must never disturb the judgement
            pass


def path_of(kind):
    kind = kind.partition("@")[0]
    if kind.startswith("fd:"):
        return "frequency-domain"
    return {"single": "single-azimuth", "rotdpp": "rotdpp", "azimuthal": "azimuthal",
            "diffuse": "diffuse-field", "psd": "psd", "psd_raw": "psd"}[kind]


# ---------------------------------------------------------------------------
# building the real objects (always fresh)

REC_LENGTHS = None          # switched on per root (root["lengths"]): samples of every recording, same time step


def rec_len(i):
    return L if REC_LENGTHS is None else int(REC_LENGTHS[i])


def max_len(nrec):
    return max(rec_len(i) for i in range(nrec))


def _sig(name, n=L):
    if "+" in name:
        a, b = name.split("+")
        return A.sig_array(a, n) + 0.1 * A.sig_array(b, n)
    return A.sig_array(name, n)


def rec_spec(i):
    """Signals and metadata of recording i: the three hand-written ones, then (roots with many windows)
    deterministic noise windows that all differ."""
    if i < len(REC_SPECS):
        return REC_SPECS[i]
    return dict(ns=f"noise{3 * i + 1}", ew=f"noise{3 * i + 2}", vt=f"noise{3 * i + 3}",
                meta={"file name(s)": [f"st01_w{i}.{c}.mseed" for c in "nez"],
                      "station": "ST01", "detrend": "linear", "split": 0.63})


def make_recordings(nrec):
    recs = []
    for i in range(nrec):
        spec = rec_spec(i)
        n = rec_len(i)
        meta = copy.deepcopy(spec["meta"])
        if "coordinates" in meta:       # a mutable value that is neither list, dict nor tuple
            meta["coordinates"] = np.array([12.5, -3.25, 101.0])
        # the second recording's time step is the float32 rounding of 0.01 (what a SAC header gives):
        # it differs from DT by ~2e-10 s, i.e. "equal" for every tolerance but not equal
        dt = DT_NEAR if (i == 1 and NEAR_EQUAL_DT) else DT
        recs.append(SeismicRecording3C(TimeSeries(_sig(spec["ns"], n), dt), TimeSeries(_sig(spec["ew"], n), dt),
                                       TimeSeries(_sig(spec["vt"], n), dt), degrees_from_north=DEG,
                                       meta=meta))
    return recs


def make_settings(kind, width, fft):
    # "<kind>@<policy>" selects a non-default handle_dissimilar_time_steps_by; the centre frequencies
    # are a float64 ndarray (the library's own default type) except for width 0.1, where they are a list
    kind, _, policy = kind.partition("@")
    fcs = list(FCS) if float(width) == 0.1 else np.array(FCS, dtype=float)
    kw = dict(window_type_and_width=["tukey", float(width)],
              smoothing=dict(operator="konno_and_ohmachi", bandwidth=40.0,
                             center_frequencies_in_hz=fcs),
              fft_settings=fft)
    if policy:
        kw["handle_dissimilar_time_steps_by"] = policy
    if kind.startswith("fd:"):
        return hvsrpy.HvsrTraditionalProcessingSettings(method_to_combine_horizontals=kind[3:], **kw)
    if kind == "single":
        return hvsrpy.HvsrTraditionalSingleAzimuthProcessingSettings(azimuth_in_degrees=30.0, **kw)
    if kind == "rotdpp":
        return hvsrpy.HvsrTraditionalRotDppProcessingSettings(azimuths_in_degrees=list(RDP_AZIMUTHS), **kw)
    if kind == "azimuthal":
        return hvsrpy.HvsrAzimuthalProcessingSettings(azimuths_in_degrees=list(AZ_AZIMUTHS), **kw)
    if kind == "diffuse":
        return hvsrpy.HvsrDiffuseFieldProcessingSettings(**kw)
    if kind == "psd":
        return hvsrpy.PsdProcessingSettings(**kw)
    if kind == "psd_raw":
        s = hvsrpy.PsdProcessingSettings(**kw)
        s.smoothing = None
        return s
    raise KeyError(kind)


def ms_fields_available(s):
    out = ["width"]
    sm = getattr(s, "smoothing", None)
    if isinstance(sm, dict) and isinstance(sm.get("center_frequencies_in_hz"), (list, np.ndarray)):
        out.append("fcs")
    if isinstance(getattr(s, "azimuths_in_degrees", None), (list, np.ndarray)):
        out.append("azimuths")
    if isinstance(getattr(s, "fft_settings", None), dict):
        out.append("fft_n")
    return out


def apply_ms(s, field):
    """Edit a settings object IN PLACE (never rebinding the attribute)."""
    if field == "width":
        s.window_type_and_width[1] = 0.9
    elif field == "fcs":
        if isinstance(s.smoothing["center_frequencies_in_hz"], np.ndarray):
            s.smoothing["center_frequencies_in_hz"] *= 1.01         # the whole array, in place
        else:
            s.smoothing["center_frequencies_in_hz"][0] *= 1.01
    elif field == "azimuths":
        s.azimuths_in_degrees[0] = 5
    elif field == "fft_n":
        s.fft_settings["n"] = 65536
    else:
        raise KeyError(field)


def apply_mr(recs, what):
    """Edit a recording IN PLACE."""
    if what == "sample":
        recs[0].ns.amplitude[7] = 2.5
    elif what == "sample-last":
        recs[-1].ew.amplitude[len(recs[-1].ew.amplitude) - 1] = -1.5
    elif what == "meta":
        recs[0].meta["station"] = "ST99"
        recs[0].meta["note"] = "edited after processing"
    elif what == "meta-nested":
        recs[0].meta["file name(s)"][0] = "renamed.n.mseed"
    elif what == "meta-array":
        recs[0].meta["coordinates"][0] = -999.0        # in-place edit of an array held in the meta
    elif what == "orient":
        recs[0].orient_sensor_to(75.0)
    else:
        raise KeyError(what)


class Raised:
    def __init__(self, exc):
        self.name = type(exc).__name__
        self.text = str(exc)[:300]


def run_process(recs, s):
    try:
        with warnings.catch_warnings(), contextlib.redirect_stdout(io.StringIO()), np.errstate(all="ignore"):
            warnings.simplefilter("ignore")
            return hvsrpy.process(recs, s)
    except Exception as e:      # noqa: BLE001 - judged by the caller
        return Raised(e)


# ---------------------------------------------------------------------------
# deep snapshots

def _np_default(x):
    if isinstance(x, np.ndarray):
        return x.tolist()
    if isinstance(x, np.generic):
        return x.item()
    if isinstance(x, (set, frozenset)):
        return sorted(x)
    return repr(x)


def _meta_json(meta):
    """Canonical JSON text of a metadata dict (tuples and lists are the same content)."""
    try:
        return json.dumps(meta, sort_keys=True, default=_np_default)
    except (TypeError, ValueError):
        return json.dumps(jsonable(meta), sort_keys=True)


def arr_digest(*arrays):
    """Digest of dtype, shape and bytes of every array (local, faster variant of core.arr_digest)."""
    h = hashlib.blake2b(digest_size=10)
    for a in arrays:
        a = np.asarray(a)
        h.update(a.dtype.str.encode())
        h.update(repr(a.shape).encode())
        h.update(a.tobytes())
    return h.hexdigest()


def snap_recordings(recs):
    """Deep content snapshot of every recording: part -> per-recording tuple."""
    out = dict(samples=[], dt=[], orientation=[], meta=[])
    for r in recs:
        out["samples"].append(arr_digest(r.ns.amplitude, r.ew.amplitude, r.vt.amplitude))
        out["dt"].append(repr((float(r.ns.dt_in_seconds), float(r.ew.dt_in_seconds), float(r.vt.dt_in_seconds))))
        out["orientation"].append(repr(float(r.degrees_from_north)))
        out["meta"].append(_meta_json(r.meta))
    return {k: tuple(v) for k, v in out.items()}


def snap_diff(a, b):
    """-> list of (part, recording index) that differ."""
    out = []
    for part in ("samples", "dt", "orientation", "meta"):
        if len(a[part]) != len(b[part]):
            out.append(("list", None))
            continue
        for i, (x, y) in enumerate(zip(a[part], b[part])):
            if x != y:
                out.append((part, i))
    return out


def data_sig(snap):
    return (snap["samples"], snap["dt"])


def _trad_parts(t):
    return dict(frequency=arr_digest(t.frequency), amplitude=arr_digest(t.amplitude),
                masks=arr_digest(t.valid_window_boolean_mask, t.valid_peak_boolean_mask),
                peaks=arr_digest(t._main_peak_frq, t._main_peak_amp), meta=_meta_json(t.meta))


def view(res):
    """Content of a result: part -> digest (metadata as canonical JSON text)."""
    if isinstance(res, Raised):
        return dict(type="raised:" + res.name)
    if isinstance(res, hvsrpy.HvsrAzimuthal):
        ps = [_trad_parts(t) for t in res.hvsrs]
        return dict(type="HvsrAzimuthal", azimuths=repr([float(a) for a in res.azimuths]),
                    frequency=digest([p["frequency"] for p in ps]), amplitude=digest([p["amplitude"] for p in ps]),
                    masks=digest([p["masks"] for p in ps]), peaks=digest([p["peaks"] for p in ps]),
                    meta=json.dumps([json.loads(_meta_json(res.meta))] + [json.loads(p["meta"]) for p in ps],
                                    sort_keys=True))
    if isinstance(res, hvsrpy.HvsrTraditional):
        return dict(type="HvsrTraditional", **_trad_parts(res))
    if isinstance(res, hvsrpy.HvsrDiffuseField):
        return dict(type="HvsrDiffuseField", frequency=arr_digest(res.frequency), amplitude=arr_digest(res.amplitude),
                    peaks=arr_digest(np.array([res.peak_frequency, res.peak_amplitude], dtype=float)),
                    meta=_meta_json(res.meta))
    if isinstance(res, dict):
        names = sorted(res)
        return dict(type="dict-of-Psd:" + ",".join(names),
                    frequency=digest([arr_digest(res[k].frequency) for k in names]),
                    amplitude=digest([arr_digest(res[k].amplitude) for k in names]),
                    meta=json.dumps([json.loads(_meta_json(res[k].meta)) for k in names], sort_keys=True))
    return dict(type="unexpected:" + type(res).__name__)


def view_diff(a, b):
    return sorted(k for k in set(a) | set(b) if a.get(k) != b.get(k))


def preview(res):
    """A few numbers of a result for violation reports."""
    if isinstance(res, Raised):
        return dict(raised=res.name, text=res.text)
    if isinstance(res, hvsrpy.HvsrAzimuthal):
        return dict(azimuths=list(res.azimuths), first_curve=np.asarray(res.hvsrs[0].amplitude)[0][:6].tolist(),
                    meta=jsonable(res.meta))
    if isinstance(res, hvsrpy.HvsrTraditional):
        return dict(frequency=np.asarray(res.frequency)[:6].tolist(),
                    first_curve=np.asarray(res.amplitude)[0][:6].tolist(), meta=jsonable(res.meta))
    if isinstance(res, hvsrpy.HvsrDiffuseField):
        return dict(frequency=np.asarray(res.frequency)[:6].tolist(),
                    curve=np.asarray(res.amplitude)[:6].tolist(), meta=jsonable(res.meta))
    if isinstance(res, dict):
        return {k: np.asarray(v.amplitude)[:6].tolist() for k, v in res.items()}
    return repr(res)[:200]


def meta_fields_changed(a_json, b_json):
    try:
        a, b = json.loads(a_json), json.loads(b_json)
    except ValueError:
        return None
    if isinstance(a, list) and isinstance(b, list) and len(a) == len(b):
        out = []
        for x, y in zip(a, b):
            out += [k for k in sorted(set(x) | set(y)) if x.get(k, "<absent>") != y.get(k, "<absent>")]
        return sorted(set(out))
    if isinstance(a, dict) and isinstance(b, dict):
        return [k for k in sorted(set(a) | set(b)) if a.get(k, "<absent>") != b.get(k, "<absent>")]
    return None


def meta_delta(a_json, b_json):
    """-> (changed fields, their values before, their values after) of two metadata JSON texts."""
    fields = meta_fields_changed(a_json, b_json)
    if fields is None:
        return None, a_json, b_json
    a, b = json.loads(a_json), json.loads(b_json)
    if isinstance(a, dict):
        a, b = [a], [b]
    exp = [{k: x.get(k, "<absent>") for k in fields if x.get(k, "<absent>") != y.get(k, "<absent>")}
           for x, y in zip(a, b)]
    obs = [{k: y.get(k, "<absent>") for k in fields if x.get(k, "<absent>") != y.get(k, "<absent>")}
           for x, y in zip(a, b)]
    return fields, exp, obs


def explained_by_inputs(parts, snap_a, snap_b):
    """Is a result difference in ``parts`` explained by the two calls having seen
    different recordings?  Data parts need different samples / time steps;
    the metadata part is explained by any difference of the recordings."""
    data_differs = data_sig(snap_a) != data_sig(snap_b)
    any_differs = bool(snap_diff(snap_a, snap_b))
    for p in parts:
        if p == "meta":
            if not any_differs:
                return False
        elif not data_differs:
            return False
    return True


# ---------------------------------------------------------------------------

class NullCtx:
    def count(self, *a, **k):
        pass

    def violation(self, *a, **k):
        pass

    def outcome(self, *a, **k):
        pass

    def sample(self, *a, **k):
        pass

    samples = ()


NULL = NullCtx()


class Holder:
    """The explored state: caller-owned recordings, the held settings objects,
    every result returned so far, and the harness's bookkeeping."""

    def __init__(self, recs):
        self.recs = recs
        self.settings = {}          # "kind|w" -> settings object (created on first use, then held)
        self.results = []           # result objects in the order returned
        self.snaps = []             # their content when returned (updated when a change was reported)
        self.log = []               # one entry per P
        self.hist = ()
        self.model_mr = []          # intended edits of the recordings
        self.model_ms = {}          # key -> intended edits of that settings object
        self.cur_views = []         # content of every result after the last operation

    def __deepcopy__(self, memo):
        # ONE deepcopy of (recordings, settings, results) keeps every aliasing relation between
        # them exactly as it is in the original; the bookkeeping holds immutable entries that
        # are only ever replaced, so shallow copies of the containers are exact.
        new = Holder.__new__(Holder)
        new.recs, new.settings, new.results = copy.deepcopy((self.recs, self.settings, self.results), memo)
        new.snaps = list(self.snaps)
        new.log = list(self.log)
        new.hist = self.hist
        new.model_mr = list(self.model_mr)
        new.model_ms = {k: list(v) for k, v in self.model_ms.items()}
        new.cur_views = list(self.cur_views)
        return new


def report_inputs(ctx, root, path, before, after, ids_before, ids_after, detail):
    """(a) the recordings are exactly as they were before the call: one violation per part that changed."""
    changed = snap_diff(before, after)
    if ids_before != ids_after:
        changed.append(("list", None))
    for part in sorted({p for p, _ in changed}):
        idx = [i for p, i in changed if p == part]
        exp = obs = None
        if part in ("dt", "orientation"):
            exp = [before[part][i] for i in idx]
            obs = [after[part][i] for i in idx]
        elif part == "meta":
            exp, obs = [], []
            for i in idx:
                _, e, o = meta_delta(before[part][i], after[part][i])
                exp.append(e)
                obs.append(o)
        ctx.violation(f"C09:process:{path}:inputs-modified:{part}", root,
                      detail=dict(detail, part=part, recordings_changed=idx),
                      expected=exp if exp is not None else "recordings identical to their snapshot before the call",
                      observed=obs if obs is not None else f"{part} of recording(s) {idx} changed",
                      explanation=f"process() changed the {part} of the recordings it was given")
    return changed


_REF_CACHE = {}


class System:
    def __init__(self, root, ctx):
        self.root = root
        self.ctx = ctx
        self.nrec = root["nrec"]
        self.fft = root["fft"]
        self.kinds = list(root["kinds"])
        self.widths = list(root["widths"])
        self.p_ops = [dict(op="P", kind=k, w=w) for k in self.kinds for w in self.widths]
        self.mr_ops = [dict(op="Mr", what=m) for m in root["mr"]]
        self.ms_targets = list(root.get("ms_targets", ["last"]))
        first = root["first"]
        # the first operation group of the root: "Mr" | "Mr:<what>" | "<kind>" | "<kind>|<width>"
        if first == "Mr":
            self.first_ops = list(self.mr_ops)
        elif first.startswith("Mr:"):
            self.first_ops = [o for o in self.mr_ops if o["what"] == first[3:]]
        elif first == "P":
            self.first_ops = list(self.p_ops)
        elif "|" in first:
            self.first_ops = [o for o in self.p_ops if _key(o) == first]
        else:
            self.first_ops = [o for o in self.p_ops if o["kind"] == first]
        self.depth = root["depth"]
        self.probing = False
        self.judged = set()
        self.ref_cache = _REF_CACHE         # memo of a pure function of its key; shared by the roots of a worker
        self.intended_cache = {}

    # ---- E1 interface -------------------------------------------------------
    def initial(self, root):
        return Holder(make_recordings(self.nrec))

    def clone(self, h):
        return copy.deepcopy(h)     # see Holder.__deepcopy__

    def menu(self, h):
        if not h.hist:
            return self.first_ops
        ops = list(self.p_ops)
        ps = [o for o in h.hist if o["op"] == "P"]
        if ps:
            tk = {"last": _key(ps[-1]), "first": _key(ps[0])}
            for target in self.ms_targets:
                if target == "first" and tk["first"] == tk["last"]:
                    continue
                for f in ms_fields_available(h.settings[tk[target]]):
                    ops.append(dict(op="Ms", target=target, field=f))
        return ops + self.mr_ops

    def canon(self, h):
        return digest(dict(recs=snap_recordings(h.recs),
                           settings={k: jsonable(s.attr_dict) for k, s in sorted(h.settings.items())},
                           results=h.cur_views))      # re-read from the objects at the end of apply()

    def observe(self, h):
        return None     # canon() is the complete observable state (no abstraction to validate)

    def invariant(self, h, hist, ctx, root):
        return          # transitions are judged in apply()

    def apply(self, h, op):
        hk = json.dumps(list(h.hist) + [op], sort_keys=True)
        muted = hk in self.judged       # replay of a history that was judged already (determinism check)
        self.judged.add(hk)
        ctx = NULL if muted else self.ctx
        if op["op"] == "P":
            out = self._P(h, op, ctx, muted)
        elif op["op"] == "Ms":
            ps = [o for o in h.hist if o["op"] == "P"]
            key = _key(ps[-1] if op["target"] == "last" else ps[0])
            apply_ms(h.settings[key], op["field"])
            h.model_ms.setdefault(key, []).append(op["field"])
            out = None
        else:
            apply_mr(h.recs, op["what"])
            h.model_mr.append(op["what"])
            out = None
        h.hist = h.hist + (op,)
        self._results_unchanged(h, op, ctx)
        if not muted and op["op"] != "P" and len(h.hist) >= self.depth and self.depth <= 2:
            self._leaf_probe(h, op, ctx)
        return out

    def _leaf_probe(self, h, op, ctx):
        """An edit at the depth bound: process once more (on a clone) with the edited / the last
        used settings object, so that the effect of the edit on the next call is judged too."""
        ps = [o for o in h.hist if o["op"] == "P"]
        if not ps:
            return
        pop = ps[0] if (op["op"] == "Ms" and op["target"] == "first") else ps[-1]
        h2 = copy.deepcopy(h)
        self.probing = True
        try:
            self.apply(h2, dict(op="P", kind=pop["kind"], w=pop["w"]))
        finally:
            self.probing = False
        ctx.count("transitions")
        ctx.count("leaf_probes")

    # ---- the fresh-state reference -----------------------------------------------
    def _intended(self, mr):
        """Snapshot of what the caller's recordings should be: root recordings + Mr edits."""
        k = tuple(mr)
        if k not in self.intended_cache:
            recs = make_recordings(self.nrec)
            for m in mr:
                apply_mr(recs, m)
            self.intended_cache[k] = snap_recordings(recs)
        return self.intended_cache[k]

    def _reference(self, op, ms, mr, n_used, ctx):
        """The same call on pristine objects asked for the FFT length the judged call used -
        computed in a process without history (engine/pristine.py) when the server is up."""
        k = (self.nrec, op["kind"], op["w"], tuple(ms), tuple(mr), n_used, self.fft if n_used is None else None)
        if k in self.ref_cache:
            ctx.count("fresh_reference_reused")
            return self.ref_cache[k]
        if k in _REF_CACHE:
            ctx.count("fresh_reference_reused")
            self.ref_cache[k] = _REF_CACHE[k]
            return self.ref_cache[k]
        if _SERVER is not None:
            ans = _SERVER.request(dict(nrec=self.nrec, kind=op["kind"], w=op["w"], ms=list(ms), mr=list(mr),
                                       n_used=n_used, fft=self.fft, near_dt=NEAR_EQUAL_DT,
                                       lengths=REC_LENGTHS))
            ctx.count("transitions")
            ctx.count("fresh_reference_computed")
            ctx.count("fresh_reference_computed_in_pristine_process")
            if len(_REF_CACHE) > 20000:
                _REF_CACHE.clear()
            _REF_CACHE[k] = self.ref_cache[k] = ans
            return ans
        recs = make_recordings(self.nrec)
        for m in mr:
            apply_mr(recs, m)
        s = make_settings(op["kind"], op["w"], {"n": None})
        for f in ms:
            apply_ms(s, f)
        if n_used is None:
            s.fft_settings = FFT_REQUESTS[self.fft]()
        elif n_used == max_len(self.nrec):
            s.fft_settings = {"n": None}
        else:
            s.fft_settings = {"n": int(n_used)}
        # Decoy calls: process unrelated recordings of ANOTHER length, time step, taper width and kind
        # first.  On code without hidden process-global state this changes nothing; a module- or
        # class-level cache keyed too coarsely (most-recent taper, filter design, ...) is refreshed
        # here, so the reference no longer shares the judged call's stale entry.
        _decoy()
        ctx.count("decoy_calls")
        res = run_process(recs, s)
        ctx.count("transitions")
        ctx.count("fresh_reference_computed")
        n_ref = s.fft_settings.get("n") if isinstance(s.fft_settings, dict) else None
        self.ref_cache[k] = (view(res), preview(res), n_ref)
        return self.ref_cache[k]

    # ---- judging one process() call -------------------------------------------------
    def _report_inputs(self, ctx, path, before, after, ids_before, ids_after, detail):
        return report_inputs(ctx, self.root, path, before, after, ids_before, ids_after, detail)

    def _P(self, h, op, ctx, muted):
        root = self.root
        key = _key(op)
        path = path_of(op["kind"])
        if key not in h.settings:
            h.settings[key] = make_settings(op["kind"], op["w"], FFT_REQUESTS[self.fft]())
        s = h.settings[key]
        pre_fft = copy.deepcopy(s.fft_settings)
        before = snap_recordings(h.recs)
        ids_before = [id(r) for r in h.recs]
        res = run_process(h.recs, s)        # (the explorer counts this transition)
        after = snap_recordings(h.recs)
        ids_after = [id(r) for r in h.recs]
        n_after = s.fft_settings.get("n") if isinstance(s.fft_settings, dict) else None
        v = view(res)
        ms = list(h.model_ms.get(key, []))
        mr = list(h.model_mr)
        hist = list(h.hist) + [op]
        detail = dict(hist=hist, settings_object=key, fft_settings_before_call=pre_fft,
                      fft_settings_after_call=jsonable(s.fft_settings),
                      recordings=f"{self.nrec} x SeismicRecording3C, "
                                 f"{L if REC_LENGTHS is None else list(REC_LENGTHS)[:6]} samples, dt={DT}, "
                                 f"degrees_from_north={DEG}, signals/meta = REC_SPECS[:{self.nrec}] of hvmc/checks/c09.py",
                      settings=f"make_settings({op['kind']!r}, {op['w']}, fft request {self.fft!r}); "
                               f"in-place edits so far: {ms}")
        entry = dict(pos=len(h.hist), key=key, pre_fft=pre_fft, n_after=n_after, before=before, view=v,
                     epoch=(len(mr), len(ms)))
        if muted:
            h.results.append(res)
            h.snaps.append(v)
            h.log.append(entry)
            return v.get("type")
        ctx.count("P_judged")
        ctx.count("P_judged:" + path)
        if REC_LENGTHS is not None:
            ctx.count("P_judged_unequal_lengths")
            ctx.count("P_judged_unequal_lengths:" + path)
        if self.nrec >= 256:
            ctx.count("P_judged_many_windows")
            ctx.count("P_judged_many_windows:" + path)
        ctx.outcome((op["kind"], op["w"], self.fft, n_after, v.get("amplitude"), v.get("type")))
        if len(ctx.samples) < 2 and len(hist) == 2:
            ctx.sample(dict(root=root, hist=hist, fft_after=jsonable(s.fft_settings), result=preview(res)))

        # (a) the recordings are exactly as they were
        self._report_inputs(ctx, path, before, after, ids_before, ids_after, detail)

        # (b) fresh-state differential
        ref_view, ref_prev, n_ref = self._reference(op, ms, mr, n_after, ctx)
        if n_after is not None and n_ref != n_after:
            ctx.violation("C09:fresh-differential:fft-length-not-reproducible", root,
                          detail=dict(detail, resolved_by_pristine_settings=n_ref), expected=n_after, observed=n_ref,
                          explanation="a pristine settings object cannot be made to resolve the FFT length "
                                      "the held settings object used")
        else:
            ctx.count("validated")
            d = view_diff(v, ref_view)
            if d:
                intended = self._intended(mr)
                if explained_by_inputs(d, before, intended):
                    ctx.count("fresh_difference_attributed_to_modified_inputs")
                else:
                    cls = "raises" if isinstance(res, Raised) else \
                        ("meta" if d == ["meta"] else "data")
                    fields = meta_fields_changed(v.get("meta", "null"), ref_view.get("meta", "null")) \
                        if "meta" in d else None
                    ctx.violation(f"C09:process:{path}:differs-from-fresh-state:{cls}", root,
                                  detail=dict(detail, differing_parts=d, meta_fields=fields),
                                  expected=ref_prev, observed=preview(res),
                                  explanation="the result differs from the same call on pristine copies of the "
                                              "recordings with a pristine settings object of the same FFT length "
                                              "although the recordings passed in were as the caller left them "
                                              "(state carried between calls)")
            else:
                ctx.count("fresh_equal")

        # (c') an earlier call with this settings object and no edit in between
        for e in reversed(h.log):
            if e["key"] == key and e["epoch"] == entry["epoch"]:
                ctx.count("history_repeat_checked")
                self._judge_repeat(ctx, path, e["view"], v, e["before"], before, e["pre_fft"], e["n_after"],
                                   n_after, dict(detail, earlier_call_at=e["pos"]), None, preview(res))
                break

        h.results.append(res)
        h.snaps.append(v)
        h.log.append(entry)
        if self.probing:
            return v.get("type")

        # (c) immediate repeat, on a clone of the whole state
        h2 = copy.deepcopy(h)
        s2 = h2.settings[key]
        b2 = snap_recordings(h2.recs)
        ids2 = [id(r) for r in h2.recs]
        res2 = run_process(h2.recs, s2)
        ctx.count("transitions")
        ctx.count("immediate_repeat_checked")
        a2 = snap_recordings(h2.recs)
        n2 = s2.fft_settings.get("n") if isinstance(s2.fft_settings, dict) else None
        d2 = dict(detail, hist=hist + [dict(op, note="immediate repeat")],
                  fft_settings_after_second_call=jsonable(s2.fft_settings))
        self._report_inputs(ctx, path, b2, a2, ids2, [id(r) for r in h2.recs], d2)
        self._judge_repeat(ctx, path, v, view(res2), before, b2, pre_fft, n_after, n2, d2, preview(res), preview(res2))
        h2.hist = tuple(d2["hist"])
        self._results_unchanged(h2, op, ctx, upto=len(h2.results))
        return v.get("type")

    def _judge_repeat(self, ctx, path, v1, v2, in1, in2, pre_fft1, n1, n2, detail, prev1, prev2):
        d = view_diff(v1, v2)
        if not d:
            ctx.count("repeat_identical")
            return
        if explained_by_inputs(d, in1, in2):
            ctx.count("repeat_difference_attributed_to_modified_inputs")
            return
        detail = dict(detail, differing_parts=d, fft_n_first_call=n1, fft_n_second_call=n2)
        if pre_fft1 == {"n": None} and n1 != n2:
            ctx.violation("C09:repeat:same-settings-object:fft_n_None-re-resolved", self.root, detail=detail,
                          expected=prev1, observed=prev2,
                          explanation=f"fft_settings={{'n': None}}: the first call wrote n={n1} into the settings "
                                      f"object, the second identical call re-resolved it to n={n2} and returned a "
                                      f"different result although the recordings were the same")
            return
        ctx.violation(f"C09:repeat:same-settings-object:{path}:result-differs", self.root, detail=detail,
                      expected=prev1, observed=prev2,
                      explanation="the same processing on the same recordings with the same settings object "
                                  "returned a different result")

    # ---- (d) earlier results are immutable ---------------------------------------------
    def _results_unchanged(self, h, op, ctx, upto=None):
        cls = {"P": "process-call", "Ms": "settings-edit", "Mr": "recording-edit"}[op["op"]]
        n = len(h.results) - (1 if op["op"] == "P" else 0) if upto is None else upto
        h.cur_views = [view(r) for r in h.results]
        for i in range(n):
            now = h.cur_views[i]
            ctx.count("earlier_results_rechecked")
            d = view_diff(h.snaps[i], now)
            for part in d:
                fields, exp, obs = (None, "content as returned", f"{part} changed")
                if part == "meta":
                    fields, exp, obs = meta_delta(h.snaps[i].get(part, "null"), now.get(part, "null"))
                ctx.violation(f"C09:result:changed-by-later-{cls}:{part}", self.root,
                              detail=dict(hist=list(h.hist), result_returned_by=h.log[i]["pos"],
                                          settings_object=h.log[i]["key"], changed_by=op, part=part,
                                          meta_fields=fields),
                              expected=exp, observed=obs,
                              explanation=f"the {part} of a result returned earlier changed when "
                                          f"{'the settings object was edited' if cls == 'settings-edit' else 'a recording was edited' if cls == 'recording-edit' else 'process() was called again'} "
                                          f"afterwards (the result shares mutable state with its inputs)")
            if d:
                h.snaps[i] = now        # report each change once


# ---------------------------------------------------------------------------
# live histories: the SAME recording objects are processed, edited by their owner and processed again.
# (The breadth-first exploration above continues every history on a deep copy of the state; a copy has
# the content but not the identity of the objects, so anything the library remembers ABOUT an object -
# keyed by the object, its arrays or their addresses - is invisible there.)

COMPONENTS = ("ns", "ew", "vt")
# what an owner can do to a recording: per component, in place {one sample, the whole array through
# NumPy, TimeSeries.window()} and replacing the array {TimeSeries.detrend(), assigning a new array};
# on the recording {window(): in place, detrend(): replacing, orient_sensor_to(): replacing ns/ew}
LIVE_FORMS_INPLACE = ("elem", "scale", "window")
LIVE_FORMS_REPLACING = ("detrend", "rebind")
LIVE_EDITS = ["none"] + [f"{c}:{f}" for c in COMPONENTS for f in LIVE_FORMS_INPLACE + LIVE_FORMS_REPLACING] + \
    ["rec:window", "rec:detrend", "rec:orient"]


def live_edit_class(e):
    if e == "none":
        return "no"
    return "in-place" if (e.split(":")[1] in LIVE_FORMS_INPLACE or e == "rec:window") else "replacing"


def apply_live_edit(recs, e):
    if e == "none":
        return
    who, form = e.split(":")
    if who == "rec":
        if form == "window":
            recs[0].window("tukey", 0.5)
        elif form == "detrend":
            recs[-1].detrend("constant")
        elif form == "orient":
            recs[0].orient_sensor_to(75.0)
        else:
            raise KeyError(e)
        return
    if form == "elem":
        getattr(recs[0], who).amplitude[7] = 2.5
    elif form == "scale":
        getattr(recs[-1], who).amplitude *= 3.0
    elif form == "window":
        getattr(recs[0], who).window("tukey", 0.5)
    elif form == "detrend":
        getattr(recs[-1], who).detrend("linear")
    elif form == "rebind":
        ts = getattr(recs[0], who)
        ts.amplitude = ts.amplitude[::-1].copy()
    else:
        raise KeyError(e)


def pack_recordings(recs):
    """The VALUES of the recordings (nothing of their identity) - what an equal-valued fresh copy is built from."""
    return [dict(ns=np.array(r.ns.amplitude, copy=True), ew=np.array(r.ew.amplitude, copy=True),
                 vt=np.array(r.vt.amplitude, copy=True),
                 dt=(float(r.ns.dt_in_seconds), float(r.ew.dt_in_seconds), float(r.vt.dt_in_seconds)),
                 deg=float(r.degrees_from_north), meta=copy.deepcopy(r.meta)) for r in recs]


def unpack_recordings(packed):
    return [SeismicRecording3C(TimeSeries(np.array(d["ns"], copy=True), d["dt"][0]),
                               TimeSeries(np.array(d["ew"], copy=True), d["dt"][1]),
                               TimeSeries(np.array(d["vt"], copy=True), d["dt"][2]),
                               degrees_from_north=d["deg"], meta=copy.deepcopy(d["meta"])) for d in packed]


def _pristine_values(req):
    """One call on fresh recordings built from transmitted values with a pristine settings object."""
    recs = unpack_recordings(req["recs"])
    s = make_settings(req["kind"], req["w"], {"n": None})
    n_used = req["n_used"]
    if n_used is None:
        s.fft_settings = FFT_REQUESTS[req["fft"]]()
    elif n_used == max(len(d["vt"]) for d in req["recs"]):
        s.fft_settings = {"n": None}
    else:
        s.fft_settings = {"n": int(n_used)}
    got = snap_recordings(recs)
    res = run_process(recs, s)
    n_ref = s.fft_settings.get("n") if isinstance(s.fft_settings, dict) else None
    return (view(res), preview(res), n_ref, got)


def values_reference(packed, kind, w, fft, n_used, ctx):
    req = dict(scenario="values", recs=packed, kind=kind, w=w, fft=fft, n_used=n_used)
    ctx.count("transitions")
    ctx.count("fresh_reference_computed")
    ctx.count("values_reference_computed")
    if _SERVER is not None:
        ctx.count("fresh_reference_computed_in_pristine_process")
        return _SERVER.request(req)
    _decoy()
    return _pristine_values(req)


def _live(ctx, root):
    """For every edit e of the root: fresh recordings R and settings objects S (taper w), S' (taper w');
    process(R, S); e(R); process(R, S); process(R, S'); process(R, S) - all on the same live objects."""
    nrec, fft, kind, w, w2 = root["nrec"], root["fft"], root["kind"], root["w"], root["w_other"]
    path = path_of(kind)
    for e in root["edits"]:
        recs = make_recordings(nrec)
        s = make_settings(kind, w, FFT_REQUESTS[fft]())
        s_other = make_settings(kind, w2, FFT_REQUESTS[fft]())
        hist = []
        returned = []       # [result object, its content when returned, position in the history]
        base = dict(family="live", recordings=f"{nrec} x SeismicRecording3C, {L} samples, dt={DT}, degrees_from_north="
                                              f"{DEG}, signals/meta = rec_spec(i) of hvmc/checks/c09.py",
                    settings=f"S = make_settings({kind!r}, {w}, fft request {fft!r}); "
                             f"S' = make_settings({kind!r}, {w2}, fft request {fft!r})",
                    edit=f"apply_live_edit(recordings, {e!r})")

        def recheck(op_class, op):
            for item in returned[:-1] if op_class == "process-call" else returned:
                now = view(item[0])
                ctx.count("earlier_results_rechecked")
                for part in view_diff(item[1], now):
                    fields, exp, obs = (None, "content as returned", f"{part} changed")
                    if part == "meta":
                        fields, exp, obs = meta_delta(item[1].get(part, "null"), now.get(part, "null"))
                    ctx.violation(f"C09:result:changed-by-later-{op_class}:{part}", root,
                                  detail=dict(base, hist=list(hist), result_returned_by=item[2], changed_by=op,
                                              part=part, meta_fields=fields), expected=exp, observed=obs,
                                  explanation=f"the {part} of a result returned earlier changed when a later "
                                              f"{op_class} was made on the same live objects")
                item[1] = now

        def P(sobj, label):
            pre_fft = copy.deepcopy(sobj.fft_settings)
            packed = pack_recordings(recs)
            before = snap_recordings(recs)
            ids_before = [id(r) for r in recs]
            res = run_process(recs, sobj)
            ctx.count("transitions")
            ctx.count("P_judged")
            ctx.count("P_judged:" + path)
            ctx.count("live_P_judged")
            after = snap_recordings(recs)
            hist.append(dict(op="P", settings=label))
            n_after = sobj.fft_settings.get("n") if isinstance(sobj.fft_settings, dict) else None
            detail = dict(base, hist=list(hist), fft_settings_before_call=pre_fft,
                          fft_settings_after_call=jsonable(sobj.fft_settings))
            report_inputs(ctx, root, path, before, after, ids_before, [id(r) for r in recs], detail)
            v = view(res)
            returned.append([res, v, len(hist) - 1])
            recheck("process-call", hist[-1])
            return dict(res=res, view=v, before=before, packed=packed, n=n_after, pre_fft=pre_fft, detail=detail)

        ctx.count("states")
        ctx.count("live_histories")
        ctx.count("live_histories:" + live_edit_class(e) + "-edit")
        ctx.nontrivial_case(("live", nrec, fft, kind, w, e))
        P(s, "S")
        apply_live_edit(recs, e)
        hist.append(dict(op="edit", what=e))
        recheck("recording-edit", hist[-1])
        c2 = P(s, "S")
        ctx.outcome((kind, w, fft, e, c2["n"], c2["view"].get("amplitude"), c2["view"].get("type")))

        # (b) the recordings processed before and edited by their owner against equal-valued fresh copies
        ref_view, ref_prev, n_ref, got = values_reference(c2["packed"], kind, w, fft, c2["n"], ctx)
        if got != c2["before"]:
            ctx.violation("C09:harness:live-values-not-transmitted", root, detail=c2["detail"],
                          explanation="the fresh copies built in the reference process do not have the content of "
                                      "the live recordings (harness defect)")
        elif c2["n"] is not None and n_ref != c2["n"]:
            ctx.violation("C09:fresh-differential:fft-length-not-reproducible", root,
                          detail=dict(c2["detail"], resolved_by_pristine_settings=n_ref), expected=c2["n"],
                          observed=n_ref, explanation="a pristine settings object cannot be made to resolve the FFT "
                                                      "length the held settings object used")
        else:
            ctx.count("validated")
            d = view_diff(c2["view"], ref_view)
            if d:
                ctx.violation(f"C09:live:{path}:process-after-{live_edit_class(e)}-recording-edit:"
                              f"differs-from-equal-valued-fresh-copies", root,
                              detail=dict(c2["detail"], differing_parts=d), expected=ref_prev,
                              observed=preview(c2["res"]),
                              explanation="recordings that were processed before (and then edited by their owner) "
                                          "give another result than equal-valued fresh copies of themselves with a "
                                          "pristine settings object of the same FFT length: process() left state "
                                          "behind that is tied to the recording objects")
            else:
                ctx.count("live_fresh_equal")

        # (c) an interleaved call with another settings object, then the same call again
        P(s_other, "S'")
        c3 = P(s, "S")
        ctx.count("validated")
        ctx.count("live_repeat_checked")
        d = view_diff(c2["view"], c3["view"])
        if not d:
            ctx.count("repeat_identical")
        elif explained_by_inputs(d, c2["before"], c3["before"]):
            ctx.count("repeat_difference_attributed_to_modified_inputs")
        else:
            ctx.violation(f"C09:live:{path}:repeat-after-interleaved-call:result-differs", root,
                          detail=dict(c3["detail"], differing_parts=d, fft_n=[c2["n"], c3["n"]]),
                          expected=preview(c2["res"]), observed=preview(c3["res"]),
                          explanation="process(R, S); process(R, S'); process(R, S) on the same live objects: the "
                                      "two results for S differ although nothing was edited in between")


def _key(op):
    return f"{op['kind']}|{op['w']}"


# ---------------------------------------------------------------------------

def _selftest(ctx, root):
    """The oracles can fail: a deliberate in-place taper / metadata edit must be seen."""
    recs = make_recordings(root["nrec"])
    s0 = snap_recordings(recs)
    recs[-1].window("tukey", 0.1)
    parts = {p for p, _ in snap_diff(s0, snap_recordings(recs))}
    ctx.count("oracle_selftests")
    ok = parts == {"samples", "meta"}
    recs = make_recordings(root["nrec"])
    res = run_process(recs, make_settings("fd:geometric_mean", 0.0, {"n": None}))
    if not isinstance(res, Raised):
        v0 = view(res)
        res.meta["window_type_and_width"] = ["tukey", 0.9]
        res.valid_window_boolean_mask[0] = False
        ok = ok and view_diff(v0, view(res)) == ["masks", "meta"]
    if not ok:
        ctx.violation("C09:harness:selftest", root, observed=sorted(parts),
                      explanation="the snapshot comparison did not see a deliberate in-place edit")


_INTERLEAVED_DONE = set()


def _interleaved(ctx, root):
    """call; unrelated calls on other data (one of them with a window longer than the default FFT length); the
    same call again - in a process without any other history.  (fft request {'n': None} is left out: its
    re-resolution on the second call is the known finding of this property.)"""
    if _SERVER is None or root["fft"] == "nopad" or root.get("lengths") or root["nrec"] > 3:
        return
    kinds = root["kinds"] if root["first"] in ("Mr",) or root["first"].startswith("Mr:") else [root["first"].split("|")[0]]
    for kind in kinds:
        key = (root["nrec"], kind, root["fft"])
        if key in _INTERLEAVED_DONE:
            continue
        _INTERLEAVED_DONE.add(key)
        w = root["widths"][-1]
        ans = _SERVER.request(dict(scenario="interleaved", nrec=root["nrec"], kind=kind, w=w, fft=root["fft"]))
        ctx.count("transitions", 5)
        ctx.count("states")
        ctx.count("interleaved_scenarios")
        path = path_of(kind)
        (v1, p1, n1), (v2, p2, n2), (v3, p3, n3) = ans["first"], ans["again"], ans["fresh_settings_afterwards"]
        detail = dict(scenario="process(recs, s); unrelated process() calls on other recordings (48 samples at 0.02 s "
                               f"and one window of {LONG_N} samples at 0.005 s, default fft_settings; equal "
                               "recordings with a taper 0.004 wider) and three refused calls on recs (azimuths "
                               "beyond 180, centre frequencies above the Nyquist frequency); process(recs, s) "
                               "again; process(recs, pristine settings of the same request)",
                      kind=kind, width=w, fft_request=root["fft"], nrec=root["nrec"],
                      fft_n=[n1, n2, n3])
        for tag, (va, pa), what in (("again", (v2, p2), "the same settings object"),
                                    ("fresh-settings", (v3, p3), "a pristine settings object of the same request")):
            d = view_diff(v1, va)
            ctx.count("validated")
            if d:
                ctx.violation(f"C09:interleaved:{path}:{tag}:result-differs-after-unrelated-calls", root,
                              detail=dict(detail, differing_parts=d), expected=p1, observed=pa,
                              explanation=f"the same processing of equal recordings with {what} gives another "
                                          f"result after unrelated calls on other data were made in between")


def _root(nrec, fft, first, depth, kinds, widths, mr, ms_targets):
    return dict(nrec=nrec, fft=fft, first=first, depth=depth, kinds=list(kinds), widths=list(widths),
                mr=list(mr), ms_targets=list(ms_targets))


UNEQUAL_LENGTHS = {2: [[64, 48], [48, 64]], 3: [[64, 48, 80], [80, 64, 64], [64, 64, 48]]}
MANY = 300                  # more windows in one call than any block / batch size met in the library (>= 256)
KINDS_MANY_QUICK = ["psd", "psd_raw", "diffuse", "fd:geometric_mean", "single"]
KINDS_MANY = KINDS_MANY_QUICK + ["rotdpp", "azimuthal"]
KINDS_LIVE_QUICK = ["fd:geometric_mean", "single", "rotdpp", "azimuthal", "diffuse", "psd", "psd_raw"]  # one per path


def _special_roots(tier):
    """Roots that leave the 'one to three recordings of equal length' shape; depth 1 (every process() call is
    judged: inputs untouched, fresh-state differential, immediate repeat) and the live histories."""
    out = []
    quick = tier == "quick"
    kinds = (KINDS_QUICK if quick else KINDS_ALL) + ["psd_raw"]
    # (1) recordings of different length with the same time step in one call
    for nrec, patterns in UNEQUAL_LENGTHS.items():
        for lengths in patterns:
            for fft in (("default", "nopad") if quick else FFT_REQUESTS):
                r = _root(nrec, fft, "P", 1, kinds, [0.1] if quick else WIDTHS, [], ["last"])
                r["lengths"] = list(lengths)
                out.append(r)
    # (2) many windows in one call
    for kind in (KINDS_MANY_QUICK if quick else KINDS_MANY):
        for fft in (("default",) if quick else ("default", "nopad")):
            out.append(_root(MANY, fft, "P", 1, [kind], [0.1], [], ["last"]))
    # (3) live histories
    for kind in (KINDS_LIVE_QUICK if quick else kinds):
        combos = [(2, "default", 0.1, 0.5)]
        if not quick:       # every FFT request x 1-3 recordings; the other taper pairs on two recordings
            combos = [(n, f, 0.1, 0.5) for n in (1, 2, 3) for f in FFT_REQUESTS] + \
                [(2, "default", 0.0, 0.1), (2, "default", 0.5, 0.0)]
        for nrec, fft, w, w2 in combos:
            out.append(dict(family="live", nrec=nrec, fft=fft, kind=kind, w=w, w_other=w2, edits=list(LIVE_EDITS)))
    return out


def roots(tier, seed):
    return _base_roots(tier) + _special_roots(tier)


def _base_roots(tier):
    out = []

    def add(nrec, fft, depth, kinds, widths, mr, ms_targets):
        # one root per first operation (depth 3) / per kind of the first operation (depth 2);
        # together the roots cover every history of the menu exactly once
        if depth >= 3:
            firsts = [f"{k}|{w}" for k in kinds for w in widths] + ["Mr:" + m for m in mr]
        else:
            firsts = list(kinds) + ["Mr"]
        for first in firsts:
            out.append(_root(nrec, fft, first, depth, kinds, widths, mr, ms_targets))

    if tier == "quick":
        for nrec in (1, 2, 3):
            for fft in FFT_REQUESTS:
                add(nrec, fft, 2, KINDS_QUICK, WIDTHS, MR_QUICK, ["last"])
        for fft in FFT_REQUESTS:
            add(2, fft, 2, ["psd_raw"], WIDTHS, MR_QUICK, ["last"])
        n0 = len(out)
        add(2, "n128", 1, ["fd:geometric_mean", "single", "rotdpp", "azimuthal", "diffuse@keeping_smallest_time_step"],
            [0.1], [], ["last"])
        for r in out[n0:]:
            r["near_dt"] = True
        return out
    # thorough: depth 3 on the unpadded request (every kind, every width), depth 3 with the
    # padded requests on two recordings, depth 2 for everything else
    for nrec in (1, 2, 3):
        add(nrec, "nopad", 3, KINDS_ALL, WIDTHS, MR_ALL, ["last", "first"])
    for fft in ("default", "n128"):
        add(2, fft, 3, KINDS_QUICK, WIDTHS, MR_QUICK, ["last", "first"])
        for nrec in (1, 3):
            add(nrec, fft, 2, KINDS_ALL, WIDTHS, MR_ALL, ["last", "first"])
    for nrec in (1, 2, 3):
        for fft in FFT_REQUESTS:
            add(nrec, fft, 3, ["psd_raw"], WIDTHS, MR_QUICK, ["last"])
    n0 = len(out)
    for nrec in (2, 3):
        add(nrec, "n128", 2, ["fd:geometric_mean", "fd:squared_average@keeping_majority_time_step", "single", "rotdpp",
                              "azimuthal", "diffuse@keeping_smallest_time_step"], [0.1, 0.5], MR_QUICK, ["last"])
    for r in out[n0:]:
        r["near_dt"] = True
    return out


_SERVER = None
_REF_CACHE = {}


LONG_N = 40000      # more samples than the default FFT length 2**15: the padded length becomes 2**16


def _long_decoy():
    """An unrelated call: ONE long window, another time step and taper, default FFT settings, fresh objects."""
    n = np.arange(LONG_N)
    x = ((n * 7919) % 1013) / 1013.0 - 0.5
    recs = [SeismicRecording3C(TimeSeries(x + 0.3, 0.005), TimeSeries(x[::-1] * 1.5, 0.005),
                               TimeSeries(np.roll(x, 17) - 0.1, 0.005))]
    sm = dict(operator="linear_rectangular", bandwidth=3.0, center_frequencies_in_hz=[4.0, 9.0])
    for cls, kw in ((hvsrpy.HvsrTraditionalProcessingSettings, dict(method_to_combine_horizontals="squared_average")),
                    (hvsrpy.HvsrTraditionalSingleAzimuthProcessingSettings, dict(azimuth_in_degrees=77.0))):
        hvsrpy.process(recs, cls(window_type_and_width=["tukey", 0.33], smoothing=dict(sm), **kw))


def _refused_settings():
    sm = dict(operator="konno_and_ohmachi", bandwidth=40.0, center_frequencies_in_hz=list(FCS))
    hi = dict(sm, center_frequencies_in_hz=[5.0, 0.9 / DT])
    return [hvsrpy.HvsrAzimuthalProcessingSettings(window_type_and_width=["tukey", 0.9], smoothing=dict(sm),
                                                   azimuths_in_degrees=[0, 45, 90, 135, 180, 225]),
            hvsrpy.HvsrTraditionalProcessingSettings(window_type_and_width=["tukey", 0.8], smoothing=hi),
            hvsrpy.HvsrTraditionalSingleAzimuthProcessingSettings(window_type_and_width=["tukey", 0.7],
                                                                  smoothing=hi, azimuth_in_degrees=10.0)]


def _pristine_interleaved(req):
    """Runs in a fresh child: the call, unrelated calls (short and long decoys), the same call again with the
    SAME settings object on equal recordings; returns both views."""
    s = make_settings(req["kind"], req["w"], FFT_REQUESTS[req["fft"]]())
    recs = make_recordings(req["nrec"])         # the caller keeps its recordings (process() leaves them alone)
    r1 = run_process(recs, s)
    n1 = s.fft_settings.get("n") if isinstance(s.fft_settings, dict) else None
    _decoy()
    _long_decoy()
    # calls on the caller's recordings that are legitimately refused (azimuths outside [0, 180); centre
    # frequencies above the Nyquist frequency), each with another taper
    for bad in _refused_settings():
        out = run_process(recs, bad)
        if not isinstance(out, Raised):
            raise RuntimeError("a call meant to be refused was accepted: " + repr(bad.attr_dict)[:200])
    # last before the repetition: the same kind of call on equal data with a taper 0.4 % wider (other objects)
    run_process(make_recordings(req["nrec"]), make_settings(req["kind"], float(req["w"]) + 0.004,
                                                            FFT_REQUESTS[req["fft"]]()))
    r2 = run_process(recs, s)
    n2 = s.fft_settings.get("n") if isinstance(s.fft_settings, dict) else None
    # and a pristine settings object of the same request AFTER the unrelated calls
    s3 = make_settings(req["kind"], req["w"], FFT_REQUESTS[req["fft"]]())
    r3 = run_process(recs, s3)
    n3 = s3.fft_settings.get("n") if isinstance(s3.fft_settings, dict) else None
    return dict(first=(view(r1), preview(r1), n1), again=(view(r2), preview(r2), n2),
                fresh_settings_afterwards=(view(r3), preview(r3), n3))


def _pristine_reference(req):
    """Runs in a fresh child of the pristine server: one call, no history."""
    global NEAR_EQUAL_DT, REC_LENGTHS
    if req.get("scenario") == "interleaved":
        return _pristine_interleaved(req)
    NEAR_EQUAL_DT = bool(req.get("near_dt"))
    REC_LENGTHS = req.get("lengths")
    if req.get("scenario") == "values":
        return _pristine_values(req)
    recs = make_recordings(req["nrec"])
    for m in req["mr"]:
        apply_mr(recs, m)
    s = make_settings(req["kind"], req["w"], {"n": None})
    for f in req["ms"]:
        apply_ms(s, f)
    n_used = req["n_used"]
    if n_used is None:
        s.fft_settings = FFT_REQUESTS[req["fft"]]()
    elif n_used == max_len(req["nrec"]):
        s.fft_settings = {"n": None}
    else:
        s.fft_settings = {"n": int(n_used)}
    res = run_process(recs, s)
    n_ref = s.fft_settings.get("n") if isinstance(s.fft_settings, dict) else None
    return (view(res), preview(res), n_ref)


def warm():
    global _SERVER
    from hvmc.engine import pristine
    # the server is forked BEFORE this process runs any hvsrpy processing
    _SERVER = pristine.PristineServer(_pristine_reference, preload=pristine.preload_numba_kernels).start()
    for k in ("fd:geometric_mean", "psd"):
        run_process(make_recordings(1), make_settings(k, 0.1, {"n": None}))


def run_root(root, ctx, tier):
    global NEAR_EQUAL_DT, REC_LENGTHS
    NEAR_EQUAL_DT = bool(root.get("near_dt"))
    REC_LENGTHS = root.get("lengths")
    special = NEAR_EQUAL_DT or REC_LENGTHS is not None      # the memo of references is keyed without these
    _REF_CACHE.clear() if special else None
    try:
        if root.get("family") == "live":
            _live(ctx, root)
        else:
            _run_root(root, ctx, tier)
    finally:
        if special:
            _REF_CACHE.clear()
        NEAR_EQUAL_DT = False
        REC_LENGTHS = None


def _run_root(root, ctx, tier):
    _selftest(ctx, root)
    _interleaved(ctx, root)
    sysm = System(root, ctx)
    explorer.bfs(sysm, root, root["depth"], ctx, key_prefix="C09",
                 check_determinism=(tier == "thorough" and root["depth"] <= 2))
    ctx.nontrivial_case((root["nrec"], root["fft"], root["first"], root["kinds"], root["depth"]))


def finalize(ctx, tier):
    global _SERVER
    if _SERVER is not None:
        _SERVER.stop()
        _SERVER = None
    c = ctx.counters
    need = ["P_judged", "validated", "immediate_repeat_checked", "history_repeat_checked",
            "earlier_results_rechecked", "fresh_reference_computed"]
    paths = ("frequency-domain", "single-azimuth", "rotdpp", "azimuthal", "diffuse-field", "psd")
    need += ["P_judged:" + p for p in paths]
    # the spaces added later: unequal lengths and many windows on every path (thorough; quick: the paths of
    # KINDS_MANY_QUICK), live histories with every class of edit, values transmitted to the reference process
    need += ["P_judged_unequal_lengths:" + p for p in paths]
    need += ["P_judged_many_windows:" + path_of(k) for k in (KINDS_MANY_QUICK if tier == "quick" else KINDS_MANY)]
    need += ["live_histories:" + c + "-edit" for c in ("no", "in-place", "replacing")]
    need += ["live_fresh_equal", "live_repeat_checked", "values_reference_computed"]
    missing = [k for k in need if not c.get(k)]
    if missing or len(ctx.outcomes) < 20:
        ctx.violation("C09:harness:vacuous", dict(tier=tier), observed=dict(missing=missing,
                                                                           outcomes=len(ctx.outcomes)),
                      explanation="an oracle of the check was never exercised")


def describe(tier):
    return dict(
        rule="root = (1-3 recordings of 64 samples with different signals per component, deployed orientation 15 deg, "
             "list-valued metadata; FFT request None / {'n': None} / {'n': 128}; first operation group); BFS over "
             "all histories up to the root's depth of {process(kind, Tukey width) with one held settings object per "
             "(kind, width), kinds = one per frequency-domain formula + single azimuth + RotDpp + azimuthal + "
             "diffuse field + PSD (smoothed; unsmoothed in separate roots), widths {0, 0.1, 0.5}; in-place edits of "
             "the last (thorough: also the first) used settings object: width, first centre frequency, first "
             "azimuth, fft n; in-place edits of a recording: sample, metadata entry, nested metadata list "
             "(thorough: also last recording's sample, orient_sensor_to)}; every process() transition is judged "
             "(inputs unchanged, fresh-state differential, immediate repeat on a clone, repeat along the history) "
             "and after every operation all earlier results are re-read; an edit at the depth bound of a depth-2 "
             "root is followed by one more process() on a clone (leaf probe); states are the complete observable "
             "state (recordings + settings + all results); non-trivial/distinct = root",
        bounds=dict(depth="2 quick; thorough 3 for the unpadded request (all kinds) and for 2 recordings with the "
                          "padded requests (8 kinds), 2 otherwise",
                    recordings="1-3 x 64 samples, dt 0.01", tukey_widths=WIDTHS,
                    unequal_lengths={f"{k} recordings": v for k, v in UNEQUAL_LENGTHS.items()}, many_windows=MANY, live_edits=LIVE_EDITS,
                    live_kinds=(KINDS_LIVE_QUICK if tier == "quick" else KINDS_ALL + ["psd_raw"]),
                    fft_requests=list(FFT_REQUESTS),
                    kinds=(KINDS_QUICK if tier == "quick" else KINDS_ALL) + ["psd_raw (own roots)"],
                    determinism_replays="thorough, roots of depth 2"),
        exhaustive=True,
        assumptions=["results are compared bit for bit (the same code path runs twice)",
                     "the fresh-state reference is asked for the FFT length the judged call resolved ({'n': None} "
                     "when it equals the window length, {'n': n} otherwise) and is memoised per (number of "
                     "recordings, kind, width, settings edits, recording edits, n) inside a worker process",
                     "a result difference between two calls that saw different recordings is attributed to the "
                     "inputs-modified finding reported at the call that changed them, not reported again",
                     "recordings of one call have the same time step except in the near-equal time-step roots; "
                     "lengths differ only in the unequal-length roots (48/64/80 samples); alias method names and "
                     "really dissimilar time steps are not exercised (C01 / C03)",
                     "live histories: one edit per history, two recordings, tapers (0.1, 0.5) and the default FFT "
                     "request in quick (thorough: 1-3 recordings x all three FFT requests, and two more taper pairs); edits that change the number of samples (trim) are not "
                     "in the alphabet"])


_RULE_R5 = (
    "Three further families leave the shape 'one to three recordings of equal length, every history continued on a "
    "deep copy'. (1) Unequal lengths: roots with recordings of " + repr(UNEQUAL_LENGTHS) + " samples (same time "
    "step) in one call, every kind (+ unsmoothed PSD), FFT requests default and {'n': None} (thorough: all three, "
    "all widths), depth 1: every process() is judged - recordings bit-identical afterwards, result equal to the "
    "pristine-process reference, immediate repeat with the same settings object identical. (2) Many windows: "
    f"{MANY} recordings of 64 samples (all different) in one call, one root per kind of " + repr(KINDS_MANY_QUICK) +
    " (thorough: + RotDpp, azimuthal, and the {'n': None} request), depth 1, same three oracles. (3) Live histories "
    "on the SAME objects (no copy anywhere): for every kind (quick: one per processing path), and every owner's "
    "edit e of {none; per component ns/ew/vt: one sample, whole array *= 3 through NumPy, TimeSeries.window() "
    "[in place], TimeSeries.detrend(), assignment of a new array [replacing]; SeismicRecording3C.window() [in "
    "place], .detrend(), .orient_sensor_to() [replacing]}: process(R, S); e(R); process(R, S); process(R, S'); "
    "process(R, S) with S' the same kind with another taper. Every call must leave R bit-identical; the call after "
    "the edit must equal the result for equal-valued FRESH copies of R (the values are transmitted to a process "
    "without history and rebuilt there) with a pristine settings object of the same FFT length; the last call must "
    "equal the one before the interleaved call; earlier results are re-read after every step.")

_describe_base = describe


def describe(tier):     # noqa: F811 - the base description plus what later rounds added to the space
    d = _describe_base(tier)
    d["rule"] = d["rule"] + " " + _RULE_R5 + " Once per (number of recordings, kind, FFT request != nopad) an interleaved scenario is executed in a fresh child of the pristine server: call; short decoy; a 40000-sample window with default FFT settings; three refused calls on the caller's recordings; equal data with a taper 0.004 wider; the call again with the same settings object; and with a pristine settings object - all three results must be identical."
    return d
