"""C10 - preprocessing applies the documented steps in order; windows tile the record.

E2 (bounded-exhaustive enumeration), five families of roots:

* ``tiling``    - full product  rate x window length x record length, each
  executed through TimeSeries.split, SeismicRecording3C.split and
  hvsrpy.preprocess (filter and detrend off).  The records carry pairwise
  distinct sample values, so every returned window can be located in the
  record; the observed layout is judged by the exact-rational reference
  ``hvmc.ref.tiling`` (k = floor(Fraction(window) * rate)).
* ``tiling-huge`` - the same three call sites and the same reference for windows
  of more than two million sample intervals (k between 2.1e6 and 3e6) and
  records of {k-1, k, k+1, 2k-1, 2k, 2k+1} samples, one record per root:
  quotients n/k within 5e-7 of a whole number must not be rounded (k-1
  samples: refusal; 2k-1 samples: ONE window).  Quick runs the decisive
  lengths of two (rate, window) pairs, thorough all lengths of five pairs.
* ``tiling-long`` - the same three call sites and the same reference for records of about 1200 (thorough:
  also 3000) windows whose duration is not exact in binary (0.7, 0.1, 0.3 s at 1000, 300, 500, 75, 100,
  128 Hz; thorough adds 150 and 50 Hz, 1.1 and 0.07 s): window j must start on sample j*k for EVERY j, so
  whatever is accumulated from window to window must not drift.
* ``orient``    - deployed heading x turn (requested orientation - deployed heading: 0, a general angle,
  quarter, half, whole and one-and-a-half turns, negative, beyond 360, a twentieth of a degree) x window
  (1 s / no splitting) x corners x detrend x {1, 3} recordings (the others deployed half a turn and 15
  degrees away).  ``preprocess`` must equal the pipeline whose FIRST step is the independent plane rotation
  ``hvmc.ref.rotation.reorient`` (rtol 1e-9).  The order / unsplit families use the same rotation
  reference; a mismatch that vanishes when the library's own ``orient_sensor_to`` is substituted is reported
  as ``orientation-not-the-reference-rotation``, every other one as ``order``.
* ``order``     - rate x window x record length x filter corners x detrend x
  orientation x number of recordings (quick: every case within 3 deviations of
  the default; thorough: the full product).  ``preprocess`` must equal, bit
  for bit, the pipeline assembled from the public primitives in the
  documented order; two observably wrong orders are evaluated as well and
  must differ somewhere (non-vacuity, asserted in ``finalize``).
* ``unsplit``   - ``window_length_in_seconds=None`` (no splitting, the whole
  record is the single window): full product rate x record length x filter
  corners x detrend x orientation x number of recordings in both tiers;
  ``preprocess`` must return one element per recording, equal to orient ->
  whole-record Butterworth -> detrend of the whole record with the REQUESTED
  type (bitwise; rtol 1e-9 with an orientation).  That the other detrend type
  gives a different record is asserted in ``finalize``.
* ``zerophase`` - per rate and corner combination: filtering the time-reversed
  record equals the time-reversed output, and a sinusoid at a corner frequency
  comes out with no quadrature component.
"""
import math
import warnings
from fractions import Fraction

import numpy as np

import hvsrpy
from hvsrpy.timeseries import TimeSeries
from hvsrpy.seismic_recording_3c import SeismicRecording3C

from hvmc.engine import product
from hvmc.engine.core import bitwise_equal
from hvmc.ref import tiling as RT
from hvmc.ref import rotation as RR

PROPERTY = "C10"

# first value = default
RATES = [100, 75, 50, 128, 150, 300, 500]
WINDOWS = ["1", "3", "0.5", "2.56", "7", "60"]
LENGTHS = ["3k+2", "2k+1", "k-1", "k", "k+1", "k+2", "2k-1", "2k", "2k+2", "3k+3", "5k", "5k+1"]
CORNERS = [[1, 20], [None, None], [1, None], [None, 20]]
DETREND = ["linear", "constant", "none", None]
ORIENT = [None, 0, 40]
NREC = ["one", "three"]

# huge windows (more than 2e6 sample intervals each): (rate, window, record lengths in the quick tier)
HUGE_LENGTHS = ["k-1", "k", "k+1", "2k-1", "2k", "2k+1"]
HUGE = [(500, "5000", ["k-1", "2k-1", "2k"]),
        (1000, "2500.5", ["k-1", "2k-1"]),
        (300, "8000", []),
        (75, "28000.01", []),
        (128, "16500", [])]

# many windows (about 1200 and, thorough, 3000 per record) of a duration that is not exact in binary:
# full product rate x window x record length (thorough: the longer lists)
LONG_RATES = [1000, 300, 500, 75, 100, 128]
LONG_WINDOWS = ["0.7", "0.1", "0.3"]
LONG_LENGTHS = ["1200k+1", "1200k", "1203k-2"]
LONG_RATES_THOROUGH = LONG_RATES + [150, 50]
LONG_WINDOWS_THOROUGH = LONG_WINDOWS + ["1.1", "0.07"]
LONG_LENGTHS_THOROUGH = LONG_LENGTHS + ["3000k+1"]

# orientation: deployed heading of the (first) recording x turn = requested orientation - deployed heading
ORIENT_DEPLOY = [0, 15, 45, 90, 200, -30, 359.95]
ORIENT_TURN = [0, 40, 90, 180, -180, 270, 360, 540, -90, -400, 179.95, 0.05]
ORIENT_OTHERS = [180, 15]        # headings of recordings two and three relative to the first
ORIENT_CORNERS = [[1, 20], [None, None]]
ORIENT_DETREND = ["linear", "none"]
ORIENT_WINDOWS = ["1", None]
ORIENT_CONFIGS = [(100, "3k+2"), (75, "2k+1"), (300, "5k")]      # (rate, record length); quick: the first two

# preprocess without splitting (window_length_in_seconds=None); record lengths with k = 1 s of samples
UNSPLIT_LENGTHS = ["3k+2", "k-1", "5k", "25"]

SPACE = dict(rate=RATES, window=WINDOWS, length=LENGTHS, corners=CORNERS,
             detrend=DETREND, orient=ORIENT, nrec=NREC)
QUICK_DEVIATIONS = 3

RTOL = 1e-9
ZERO_PHASE_SECONDS = 40          # record length of the zero-phase cases
COMPONENTS = ("ns", "ew", "vt")


# ---------------------------------------------------------------------------
# alphabets

def n_samples_of(label, k):
    """Record length in samples for a label such as '3k+2' (or an absolute count such as '25')."""
    if "k" not in label:
        return int(label)
    mult, _, rest = label.partition("k")
    n = (int(mult) if mult else 1) * k
    if rest:
        n += int(rest)
    return n


def dt_of(rate):
    return 1.0 / rate            # the nearest double of 1/rate (correctly rounded division)


def rate_class(rate):
    return "exact-reciprocal-rate" if Fraction(dt_of(rate)) == Fraction(1, rate) \
        else "inexact-reciprocal-rate"


def _hash_noise(n, seed):
    """Deterministic values in [-1, 1) from an integer hash (exact uint64 arithmetic)."""
    i = np.arange(n, dtype=np.uint64)
    h = (i * np.uint64(2654435761) + np.uint64(seed) * np.uint64(40503) + np.uint64(12345)) \
        & np.uint64(0xFFFFFFFF)
    h ^= h >> np.uint64(15)
    h = (h * np.uint64(2246822519)) & np.uint64(0xFFFFFFFF)
    h ^= h >> np.uint64(13)
    h = (h * np.uint64(3266489917)) & np.uint64(0xFFFFFFFF)
    h ^= h >> np.uint64(16)
    return h.astype(np.float64) / 2.0 ** 31 - 1.0


def distinct_components(n):
    """Three strictly monotonic components: every sample value occurs once."""
    i = np.arange(n, dtype=np.float64)
    return dict(ns=(i + 1.0) / 3.0, ew=-(i + 1.0) / 7.0, vt=np.sqrt(i + 2.0))


DISTINCT_TEXT = "ns[i]=(i+1)/3, ew[i]=-(i+1)/7, vt[i]=sqrt(i+2)"


def busy_components(n, rate, seed):
    """Noise + offset + slope + a slow and a fast sinusoid: filter and detrend both matter."""
    i = np.arange(n, dtype=np.float64)
    t = i / rate
    out = {}
    for c, name in enumerate(COMPONENTS):
        s = seed * 10 + c
        out[name] = (_hash_noise(n, s)
                     + (0.5 + 0.25 * c) + (0.3 - 0.2 * c) * t
                     + 0.8 * np.sin(2 * math.pi * 0.31 * t + 0.4 * s)
                     + 0.5 * np.sin(2 * math.pi * (0.23 * rate) * t + 0.1 * s))
    return out


BUSY_TEXT = ("component c of recording s: hash-noise(seed 10 s + c) + (0.5+0.25c) + (0.3-0.2c) t + "
             "0.8 sin(2 pi 0.31 t + 0.4(10s+c)) + 0.5 sin(2 pi 0.23 rate t + 0.1(10s+c)); see "
             "hvmc.checks.c10.busy_components")


def make_record(comps, dt, degrees_from_north=0.0):
    return SeismicRecording3C(TimeSeries(comps["ns"], dt), TimeSeries(comps["ew"], dt),
                              TimeSeries(comps["vt"], dt), degrees_from_north=degrees_from_north)


def make_settings(window, corners, detrend, orient):
    return hvsrpy.settings.HvsrPreProcessingSettings(
        orient_to_degrees_from_north=orient,
        filter_corner_frequencies_in_hz=list(corners),
        window_length_in_seconds=None if window is None else float(window),
        detrend=detrend)


def _call(fn):
    """Outcome of a call into hvsrpy: ('ok', value) or ('raised', exception class name, text)."""
    try:
        with warnings.catch_warnings():
            warnings.simplefilter("ignore")
            return ("ok", fn())
    except Exception as e:      # noqa: BLE001 - the outcome is judged by the oracle
        return ("raised", type(e).__name__, str(e)[:200])


# ---------------------------------------------------------------------------
# tiling

def locate(x, w):
    """(first sample, number of samples) of window ``w`` inside record ``x``, bit for bit."""
    w = np.asarray(w)
    if w.ndim != 1 or len(w) == 0:
        return None
    hits = np.flatnonzero(x == w[0])
    if len(hits) != 1:
        return None
    s = int(hits[0])
    if s + len(w) > len(x) or not bitwise_equal(x[s:s + len(w)], w):
        return None
    return (s, len(w))


class Locator:
    """``locate`` for many windows of one record: the record is sorted once, every window is found by
    bisection (same answer as ``locate``: the window's first value must occur exactly once)."""

    def __init__(self, x):
        self.x = x
        self.order = np.argsort(x, kind="stable")
        self.sorted = x[self.order]

    def __call__(self, w):
        w = np.asarray(w)
        if w.ndim != 1 or len(w) == 0:
            return None
        lo = int(np.searchsorted(self.sorted, w[0], side="left"))
        hi = int(np.searchsorted(self.sorted, w[0], side="right"))
        if hi - lo != 1:
            return None
        s = int(self.order[lo])
        x = self.x
        if s + len(w) > len(x) or not bitwise_equal(x[s:s + len(w)], w):
            return None
        return (s, len(w))


def layout_problems(outcome, layouts, n, k):
    """Problems [(tag, text)] of one split outcome against the reference tiling.

    ``layouts`` is a list (one per component) of lists of located windows
    (None where a window is not a bit-exact run of the record).
    """
    exp = RT.expectation(n, k)
    if outcome[0] == "raised":
        if exp["may_raise"]:
            return []
        return [("raises", f"{outcome[1]} ({outcome[2]}) although {exp['n_full']} whole window(s) of "
                           f"{k} intervals fit into {n} samples")]
    probs = []
    for lay in layouts:
        if any(w is None for w in lay):
            return [("samples", "a window is not a run of consecutive samples of the record, "
                                "bit for bit")]
    if any(lay != layouts[0] for lay in layouts[1:]):
        return [("components", f"the components are tiled differently: {layouts}"[:400])]
    lay = layouts[0]
    if exp["must_raise"]:
        probs.append(("no-refusal", f"a window of {k} intervals is longer than the record of {n} "
                                    f"samples but {len(lay)} window(s) were returned"))
    probs += RT.judge_layout(lay, n, k)
    if probs:
        kk = RT.consistent_k(lay, n, near=k)
        if kk is not None and kk != k:
            # the refusal clause is reported under its own tag as well: "a window longer than the
            # record is an error" is broken whatever the reason for the shorter window is
            return [p for p in probs if p[0] == "no-refusal"] + \
                   [("k", f"the windows tile the record with {kk} sample intervals per window; the "
                          f"requested length holds {k} whole intervals")]
    return probs


def run_tiling(root, ctx, tier):
    rate, window = root["rate"], root["window"]
    dt = dt_of(rate)
    k = RT.intervals(window, rate)
    wlen = float(window)
    rcls = rate_class(rate)
    huge = root.get("kind") == "tiling-huge"
    many = root.get("kind") == "tiling-long"
    if huge:
        # one record of a few million samples at a time; fewer call variants (memory, time)
        rcls += "-huge-window"
    if many:
        # a thousand and more windows per record; fewer call variants (time)
        rcls += "-many-windows"
    reduced = huge or many
    for label in root.get("lengths", LENGTHS):
        n = n_samples_of(label, k)
        if n < 1:
            continue
        comps = distinct_components(n)
        find = {c: (Locator(comps[c]) if many else (lambda w, x=comps[c]: locate(x, w))) for c in COMPONENTS}
        exp = RT.expectation(n, k)
        case = dict(rate=rate, dt=dt, window=window, n_samples=n, k=k, record=DISTINCT_TEXT)
        ctx.count("states")
        if len(exp["layouts"]) and len(exp["layouts"][-1]) >= 2:
            ctx.nontrivial_case(("tiling", rate, window, label))
        if huge:
            ctx.count("huge_window_cases")
            if n == k - 1 or n == 2 * k - 1:
                ctx.count("huge_window_cases_one_sample_short_of_a_whole_number_of_windows")
        if many:
            ctx.count("many_window_cases")
            if exp["n_full"] >= 1000:
                ctx.count("many_window_cases_with_1000_or_more_windows")

        def report(site, probs, outcome, lay, skip=(), case=case):
            for tag, text in probs:
                if tag in skip:
                    continue
                ctx.violation(f"C10:{site}:{rcls}:{tag}", root,
                              detail=dict(case, site=site),
                              expected=dict(k=k, admissible_layouts=exp["layouts"][:2] if n < 5000 else
                                            [[list(w) for w in L[:6]] for L in exp["layouts"]],
                                            must_raise=exp["must_raise"], may_raise=exp["may_raise"]),
                              observed=(outcome[1:] if outcome[0] == "raised" else
                                        dict(windows=[list(w) if w else None for w in (lay or [])][:8],
                                             n_windows=len(lay or []))),
                              explanation=f"{site}({window} s) at {rate} Hz, {n} samples: {text}")

        # --- TimeSeries.split -------------------------------------------------
        base_tags = None
        base_windows = {}
        for cname in COMPONENTS:
            ts = TimeSeries(comps[cname], dt)
            out = _call(lambda: ts.split(wlen))
            ctx.count("transitions")
            lay = None
            if out[0] == "ok":
                lay = [find[cname](w.amplitude) for w in out[1]]
                if reduced and all(w is not None for w in lay):
                    base_windows[cname] = ("located", lay)      # bit-exact runs of the record: the layout says it all
                else:
                    base_windows[cname] = [w.amplitude for w in out[1]]
                if not bitwise_equal(ts.amplitude, comps[cname]):
                    ctx.violation(f"C10:split:{rcls}:record-altered", root, detail=dict(case, site="split"),
                                  explanation="TimeSeries.split altered the record it splits")
            else:
                base_windows[cname] = out[1]
            probs = layout_problems(out, [lay], n, k)
            ctx.count("validated")
            if huge:
                del ts
                out = out[:1] + ((None,) if out[0] == "ok" else out[1:])
            if cname == "ns":
                base_tags = {t for t, _ in probs}
                shape = "raised" if out[0] == "raised" else \
                    (len(lay), None if not lay or lay[-1] is None else lay[-1][1] - k)
                ctx.outcome(("split", shape, label))
                report("split", probs, out, lay)
            else:
                report("split", probs, out, lay, skip=base_tags)

        # --- SeismicRecording3C.split -----------------------------------------
        rec = make_record(comps, dt)
        out = _call(lambda: rec.split(wlen))
        ctx.count("transitions")
        self_check_3c(ctx, root, case, rcls, "split3c", out, comps, base_windows, n, k, base_tags, report, find)

        # --- preprocess, filter and detrend off ---------------------------------
        del rec, out
        for detrend in (("none",) if reduced else ("none", None)):
            for nrec in (("list1",) if reduced else ("list1", "three")):
                recs = [make_record(comps, dt)]
                if nrec == "three":
                    recs = [make_record(comps, dt) for _ in range(3)]
                settings = make_settings(window, [None, None], detrend, None)
                out = _call(lambda: hvsrpy.preprocess(recs, settings))
                ctx.count("transitions")
                ctx.count("states")
                site = "preprocess"
                if out[0] == "ok":
                    wins = out[1]
                    per = len(wins) // len(recs) if len(recs) else 0
                    if len(wins) != per * len(recs):
                        ctx.violation(f"C10:preprocess:{rcls}:per-record-count", root,
                                      detail=dict(case, site=site, detrend=detrend, recordings=len(recs)),
                                      observed=len(wins),
                                      explanation="identical recordings produced different numbers of windows")
                        continue
                    for r in range(len(recs)):
                        sub = ("ok", wins[r * per:(r + 1) * per])
                        self_check_3c(ctx, root, dict(case, detrend=detrend, recordings=len(recs), recording=r),
                                      rcls, site, sub, comps, base_windows, n, k, base_tags, report, find)
                else:
                    self_check_3c(ctx, root, dict(case, detrend=detrend, recordings=len(recs)),
                                  rcls, site, out, comps, base_windows, n, k, base_tags, report, find)
                del recs, out
        del comps, base_windows, find
        if len(ctx.samples) < 2 and label == "2k" and not huge:
            ctx.sample(dict(kind="tiling", case=case, admissible_layouts=exp["layouts"]))


def self_check_3c(ctx, root, case, rcls, site, out, comps, base_windows, n, k, base_tags, report, find):
    """Judge a list of SeismicRecording3C windows: tiling reference + TimeSeries.split per component."""
    ctx.count("validated")
    lays = None
    if out[0] == "ok":
        lays = [[find[c](getattr(w, c).amplitude) for w in out[1]] for c in COMPONENTS]
    probs = layout_problems(out, lays, n, k)
    report(site, probs, out, lays[0] if lays else None, skip=base_tags or (), case=case)
    ctx.outcome((site, out[0] if out[0] == "raised" else len(out[1])))
    # same code path twice: must agree with the per-component TimeSeries.split exactly
    for c in COMPONENTS:
        b = base_windows.get(c)
        if isinstance(b, str) or out[0] == "raised":
            same = isinstance(b, str) and out[0] == "raised"
        elif isinstance(b, tuple):          # ("located", layout) - huge records keep the layout only
            same = lays[COMPONENTS.index(c)] == b[1]
        else:
            same = len(b) == len(out[1]) and all(
                bitwise_equal(x, getattr(w, c).amplitude) for x, w in zip(b, out[1]))
        if not same:
            ctx.violation(f"C10:{site}:{rcls}:vs-TimeSeries.split", root, detail=dict(case, site=site, component=c),
                          expected="raises" if isinstance(b, str) else
                          [m for _, m in b[1]][:8] if isinstance(b, tuple) else [len(x) for x in b][:8],
                          observed=out[1:] if out[0] == "raised" else
                          [len(getattr(w, c).amplitude) for w in out[1]][:8],
                          explanation=f"{site}: component {c} is not split like TimeSeries.split splits "
                                      f"that component on its own")
            break


# ---------------------------------------------------------------------------
# order of the steps

def record_specs(rate, n, k, nrec, cache=None):
    """[(components, degrees_from_north)] - lengths differ between the recordings.

    The arrays are never written to (every consumer copies them into fresh
    TimeSeries objects), so one root may share them between its cases.
    """
    cache = {} if cache is None else cache

    def comps(m, seed):
        if (m, seed) not in cache:
            cache[(m, seed)] = busy_components(m, rate, seed)
            for a in cache[(m, seed)].values():
                a.setflags(write=False)
        return cache[(m, seed)]
    if nrec == "one":
        return [(comps(n, 1), 0.0)]
    return [(comps(n, 1), 0.0), (comps(n + k, 2), 15.0), (comps(max(n - 1, 1), 3), 0.0)]


def _ts_filter(a, dt, corners):
    ts = TimeSeries(a, dt)
    ts.butterworth_filter(tuple(corners))
    return ts.amplitude


def _ts_split(a, dt, wlen):
    if wlen is None:            # no splitting: the whole record is the single window
        return [a]
    return [w.amplitude for w in TimeSeries(a, dt).split(wlen)]


def _ts_detrend(a, dt, detrend):
    if detrend is None or detrend == "none":
        return a
    ts = TimeSeries(a, dt)
    ts.detrend(type=detrend)
    return ts.amplitude


_SOS_CACHE = {}


class _memoised_design:
    """While the *reference* pipeline runs, hvsrpy.timeseries.butter is
    memoised (same arguments -> a copy of the same coefficients).  Filter design
    costs more than filtering a short record; the call under test
    (hvsrpy.preprocess) always runs with the unpatched function."""

    def __enter__(self):
        import hvsrpy.timeseries as T
        self.T, self.orig = T, T.butter
        orig = self.orig

        def butter(*args, **kwargs):
            key = repr((args, sorted(kwargs.items())))
            if key not in _SOS_CACHE:
                if len(_SOS_CACHE) > 256:
                    _SOS_CACHE.clear()
                _SOS_CACHE[key] = orig(*args, **kwargs)
            return np.array(_SOS_CACHE[key])
        T.butter = butter

    def __exit__(self, *exc):
        self.T.butter = self.orig
        return False


def pipeline(specs, dt, wlen, corners, detrend, orient, order="documented", rotation="reference"):
    with _memoised_design():
        return _pipeline(specs, dt, wlen, corners, detrend, orient, order, rotation)


def _pipeline(specs, dt, wlen, corners, detrend, orient, order="documented", rotation="reference"):
    """Windows [(ns, ew, vt)] from the public primitives, applied per component.

    rotation: 'reference'  the sensor is oriented by hvmc.ref.rotation.reorient (plane rotation written from
                           the clockwise-from-north definition; independent of hvsrpy)
              'library'    by SeismicRecording3C.orient_sensor_to (only used to tell WHICH step disagrees)

    order: 'documented'           orient -> filter record -> split -> detrend windows
           'filter-after-split'   orient -> split -> filter windows -> detrend windows
           'detrend-before-split' orient -> filter record -> detrend record -> split
    """
    out = []
    for comps, dfn in specs:
        arrays = {c: np.array(comps[c]) for c in COMPONENTS}
        if orient is not None and rotation == "library":
            rec = make_record(arrays, dt, dfn)
            rec.orient_sensor_to(orient)
            arrays = {c: getattr(rec, c).amplitude for c in COMPONENTS}
        elif orient is not None:
            ns, ew = RR.reorient(arrays["ns"], arrays["ew"], dfn, orient)
            arrays = dict(ns=ns, ew=ew, vt=arrays["vt"])
        per_comp = {}
        for c in COMPONENTS:
            a = arrays[c]
            if order == "documented":
                a = _ts_filter(a, dt, corners)
                ws = [_ts_detrend(w, dt, detrend) for w in _ts_split(a, dt, wlen)]
            elif order == "filter-after-split":
                ws = [_ts_detrend(_ts_filter(w, dt, corners), dt, detrend) for w in _ts_split(a, dt, wlen)]
            elif order == "detrend-before-split":
                a = _ts_detrend(_ts_filter(a, dt, corners), dt, detrend)
                ws = _ts_split(a, dt, wlen)
            else:
                raise KeyError(order)
            per_comp[c] = ws
        for j in range(len(per_comp["ns"])):
            out.append(tuple(per_comp[c][j] for c in COMPONENTS))
    return out


def compare_windows(obs, exp, exact, scale):
    """None if equal, else text.  obs/exp: lists of (ns, ew, vt) arrays."""
    if len(obs) != len(exp):
        return f"{len(obs)} windows instead of {len(exp)}"
    for j, (o, e) in enumerate(zip(obs, exp)):
        for c, oc, ec in zip(COMPONENTS, o, e):
            if oc.shape != ec.shape:
                return f"window {j} component {c} has {oc.shape[0]} samples instead of {ec.shape[0]}"
            if exact:
                if not bitwise_equal(oc, ec):
                    d = float(np.max(np.abs(oc - ec)))
                    return f"window {j} component {c} differs (max |difference| {d:.3g}, not bit-identical)"
            else:
                if not np.allclose(oc, ec, rtol=RTOL, atol=RTOL * scale):
                    d = float(np.max(np.abs(oc - ec)))
                    return f"window {j} component {c} differs by up to {d:.3g}"
    return None


def mismatch_oracle(got, specs, dt, wlen, corners, detrend, orient, scale):
    """Which oracle a mismatch with the reference pipeline belongs to.

    'orientation-not-the-reference-rotation' when the output IS the documented sequence of the library's
    own primitives (so the steps and their order are right) but the orientation step is not the
    clockwise-from-north rotation from the deployed heading to the requested one; 'order' otherwise.
    """
    if orient is None:
        return "order"
    lib = _call(lambda: pipeline(specs, dt, wlen, corners, detrend, orient, rotation="library"))
    if lib[0] == "ok" and compare_windows(got, lib[1], exact=False, scale=scale) is None:
        return "orientation-not-the-reference-rotation"
    return "order"


ORIENT_EXPECTED = ("orient (hvmc.ref.rotation.reorient: ns' = ns cos r + ew sin r, ew' = ew cos r - ns sin r, "
                   "r = requested - deployed heading) -> Butterworth on the whole record -> split -> detrend each "
                   "window, from TimeSeries.butterworth_filter/split/detrend")


def run_order(root, ctx, tier):
    rate, window, label = root["rate"], root["window"], root["length"]
    dt = dt_of(rate)
    wlen = float(window)
    k = RT.intervals(window, rate)
    n = n_samples_of(label, k)
    if n < 1:
        return
    cache = {}
    for ci, di, oi, ni in root["cases"]:
        corners, detrend, orient, nrec = CORNERS[ci], DETREND[di], ORIENT[oi], NREC[ni]
        case = dict(rate=rate, dt=dt, window=window, n_samples=n, k=k, corners=corners,
                    detrend=detrend, orient=orient, recordings=nrec, records=BUSY_TEXT)
        ctx.count("states")
        specs = record_specs(rate, n, k, nrec, cache)
        scale = max(float(np.max(np.abs(comps[c]))) for comps, _ in specs for c in COMPONENTS)
        recs = [make_record(comps, dt, dfn) for comps, dfn in specs]
        settings = make_settings(window, corners, detrend, orient)
        arg = recs[0] if nrec == "one" else recs
        obs = _call(lambda: hvsrpy.preprocess(arg, settings))
        ctx.count("transitions")
        exp = _call(lambda: pipeline(specs, dt, wlen, corners, detrend, orient))
        ctx.count("validated")
        filt = corners != [None, None]
        detr = detrend not in (None, "none")
        cls = ("filter" if filt else "nofilter") + "+" + ("detrend" if detr else "nodetrend") \
            + ("+orient" if orient is not None else "")
        if obs[0] == "raised" or exp[0] == "raised":
            ctx.outcome(("order", cls, obs[0], obs[1] if obs[0] == "raised" else None))
            if obs[0] != exp[0] or obs[1] != exp[1]:
                ctx.violation(f"C10:preprocess:{cls}:raises-unlike-primitives", root, detail=case,
                              expected=exp[1:] if exp[0] == "raised" else f"{len(exp[1])} windows",
                              observed=obs[1:] if obs[0] == "raised" else f"{len(obs[1])} windows",
                              explanation="preprocess and the documented sequence of public primitives "
                                          "do not fail alike")
            else:
                ctx.count("order_cases_both_refuse")
            continue
        got = [tuple(getattr(w, c).amplitude for c in COMPONENTS) for w in obs[1]]
        ctx.outcome(("order", cls, len(got), got[0][0].shape[0] - k if got else None))
        if len(got) >= 2 and (filt or detr):
            ctx.nontrivial_case(("order", rate, window, label, ci, di, oi, ni))
        text = compare_windows(got, exp[1], exact=orient is None, scale=scale)
        if text is not None:
            which = mismatch_oracle(got, specs, dt, wlen, corners, detrend, orient, scale)
            ctx.violation(f"C10:preprocess:{cls}:{which}", root, detail=case,
                          expected=ORIENT_EXPECTED,
                          observed=text,
                          explanation=f"preprocess output is not the documented pipeline: {text}")
        # the wrong orders, for non-vacuity (single recording, no rotation)
        if nrec == "one" and orient is None:
            for wrong, active in (("filter-after-split", filt), ("detrend-before-split", detr)):
                if not active:
                    continue
                w = _call(lambda: pipeline(specs, dt, wlen, corners, detrend, orient, order=wrong))
                ctx.count("wrong_order_evaluated:" + wrong)
                if w[0] == "raised" or compare_windows(w[1], exp[1], exact=False, scale=scale) is not None:
                    ctx.count("wrong_order_differs:" + wrong)
                else:
                    ctx.count("wrong_order_agrees:" + wrong)
        if len(ctx.samples) < 5 and filt and detr and len(got) >= 2 and orient is not None:
            ctx.sample(dict(kind="order", case=case, windows=len(got),
                            first_window_ns_head=got[0][0][:3]))


# ---------------------------------------------------------------------------
# the orientation step: every relation between the deployed heading and the requested orientation

def turn_class(turn):
    """Class of a turn (requested orientation - deployed heading) in degrees."""
    for name, a in (("whole-turn", 0.0), ("half-turn", 180.0), ("quarter-turn", 90.0), ("quarter-turn", 270.0)):
        if RR.same_direction(turn, a):
            return name
    return "general-turn"


def run_orient(root, ctx, tier):
    """preprocess == reference rotation -> filter -> split -> detrend for every (deployed heading, turn).

    Full product turn x window x corners x detrend x {1, 3} recordings under every (rate, record length,
    deployed heading) root.  With three recordings the second is deployed half a turn and the third 15
    degrees away from the first, so every relation also occurs on a recording that is not the first.
    """
    rate, label, deploy = root["rate"], root["length"], root["deploy"]
    dt = dt_of(rate)
    cache = {}
    for window in ORIENT_WINDOWS:
        wlen = None if window is None else float(window)
        k = RT.intervals(window or "1", rate)
        n = n_samples_of(label, k)
        for turn in ORIENT_TURN:
            target = deploy + turn
            for corners in ORIENT_CORNERS:
                for detrend in ORIENT_DETREND:
                    for nrec in NREC:
                        base = record_specs(rate, n, k, nrec, cache)
                        heads = [deploy] + [deploy + o for o in ORIENT_OTHERS]
                        specs = [(comps, heads[i]) for i, (comps, _) in enumerate(base)]
                        classes = [turn_class(target - h) for _, h in specs]
                        case = dict(rate=rate, dt=dt, window=window, n_samples=[len(c["ns"]) for c, _ in specs],
                                    k=k, corners=corners, detrend=detrend, deployed_at=[h for _, h in specs],
                                    orient_to=target, turns=classes, records=BUSY_TEXT)
                        ctx.count("states")
                        ctx.count("orient_cases")
                        for cl in classes:
                            ctx.count("orient_recordings:" + cl)
                        scale = max(float(np.max(np.abs(comps[c]))) for comps, _ in specs for c in COMPONENTS)
                        recs = [make_record(comps, dt, h) for comps, h in specs]
                        settings = make_settings(window, corners, detrend, target)
                        arg = recs[0] if nrec == "one" else recs
                        obs = _call(lambda: hvsrpy.preprocess(arg, settings))
                        ctx.count("transitions")
                        exp = _call(lambda: pipeline(specs, dt, wlen, corners, detrend, target))
                        ctx.count("validated")
                        filt = corners != [None, None]
                        detr = detrend not in (None, "none")
                        cls = ("filter" if filt else "nofilter") + "+" + ("detrend" if detr else "nodetrend") + "+orient"
                        site = "preprocess" if window is not None else "preprocess-unsplit"
                        if obs[0] == "raised" or exp[0] == "raised":
                            ctx.outcome(("orient", cls, obs[0], obs[1] if obs[0] == "raised" else None))
                            if obs[0] != exp[0] or obs[1] != exp[1]:
                                ctx.violation(f"C10:{site}:{cls}:raises-unlike-primitives", root, detail=case,
                                              expected=exp[1:] if exp[0] == "raised" else f"{len(exp[1])} windows",
                                              observed=obs[1:] if obs[0] == "raised" else f"{len(obs[1])} windows",
                                              explanation="preprocess and the documented sequence of steps do not "
                                                          "fail alike")
                            continue
                        got = [tuple(getattr(w, c).amplitude for c in COMPONENTS) for w in obs[1]]
                        ctx.outcome(("orient", cls, tuple(classes), len(got)))
                        if any(cl != "whole-turn" for cl in classes):
                            ctx.nontrivial_case(("orient", rate, label, deploy, turn, window, str(corners), detrend, nrec))
                        text = compare_windows(got, exp[1], exact=False, scale=scale)
                        if text is not None:
                            which = mismatch_oracle(got, specs, dt, wlen, corners, detrend, target, scale)
                            ctx.violation(f"C10:{site}:{cls}:{which}", root, detail=case,
                                          expected=ORIENT_EXPECTED, observed=text,
                                          explanation=f"preprocess output is not the documented pipeline: {text}")
                        # non-vacuity: leaving the sensor as deployed must be distinguishable
                        if nrec == "one" and classes[0] != "whole-turn":
                            w = _call(lambda: pipeline(specs, dt, wlen, corners, detrend, None))
                            ctx.count("orient_unrotated_evaluated:" + classes[0])
                            if w[0] == "raised" or compare_windows(w[1], exp[1], exact=False, scale=scale) is not None:
                                ctx.count("orient_unrotated_differs:" + classes[0])
                        if turn == 180 and nrec == "three" and filt and detr and not ctx.notes.get("orient_sampled"):
                            ctx.notes["orient_sampled"] = 1
                            ctx.sample(dict(kind="orient", case=case, windows=len(got),
                                            first_window_ns_head=got[0][0][:3]))


# ---------------------------------------------------------------------------
# order of the steps when no splitting is requested (window_length_in_seconds=None)

def run_unsplit(root, ctx, tier):
    """preprocess(window=None) == orient -> filter whole record -> (no split) -> detrend whole record.

    Full product corners x detrend x orientation x {1, 3} recordings under every
    (rate, record length) root; one returned element per recording.
    """
    rate, label = root["rate"], root["length"]
    dt = dt_of(rate)
    k = rate                     # one second of samples: only scales the record lengths
    n = n_samples_of(label, k)
    if n < 2:
        return
    cache = {}
    for ci, di, oi, ni in root["cases"]:
        corners, detrend, orient, nrec = CORNERS[ci], DETREND[di], ORIENT[oi], NREC[ni]
        specs = record_specs(rate, n, k, nrec, cache)
        case = dict(rate=rate, dt=dt, window=None, n_samples=[len(comps["ns"]) for comps, _ in specs],
                    corners=corners, detrend=detrend, orient=orient, recordings=nrec, records=BUSY_TEXT)
        ctx.count("states")
        ctx.count("unsplit_cases")
        scale = max(float(np.max(np.abs(comps[c]))) for comps, _ in specs for c in COMPONENTS)
        recs = [make_record(comps, dt, dfn) for comps, dfn in specs]
        settings = make_settings(None, corners, detrend, orient)
        arg = recs[0] if nrec == "one" else recs
        obs = _call(lambda: hvsrpy.preprocess(arg, settings))
        ctx.count("transitions")
        exp = _call(lambda: pipeline(specs, dt, None, corners, detrend, orient))
        ctx.count("validated")
        filt = corners != [None, None]
        detr = detrend not in (None, "none")
        cls = ("filter" if filt else "nofilter") + "+" + ("detrend-" + detrend if detr else "nodetrend") \
            + ("+orient" if orient is not None else "")
        if obs[0] == "raised" or exp[0] == "raised":
            ctx.outcome(("unsplit", cls, obs[0], obs[1] if obs[0] == "raised" else None))
            if obs[0] != exp[0] or obs[1] != exp[1]:
                ctx.violation(f"C10:preprocess-unsplit:{cls}:raises-unlike-primitives", root, detail=case,
                              expected=exp[1:] if exp[0] == "raised" else f"{len(exp[1])} windows",
                              observed=obs[1:] if obs[0] == "raised" else f"{len(obs[1])} windows",
                              explanation="preprocess(window_length_in_seconds=None) and the documented "
                                          "sequence of public primitives do not fail alike")
            else:
                ctx.count("unsplit_cases_both_refuse")
            continue
        if not isinstance(obs[1], (list, tuple)) or len(obs[1]) != len(specs):
            ctx.violation(f"C10:preprocess-unsplit:{cls}:one-window-per-recording", root, detail=case,
                          expected=f"a list of {len(specs)} element(s)",
                          observed=f"{type(obs[1]).__name__} of {len(obs[1]) if hasattr(obs[1], '__len__') else '?'}",
                          explanation="without splitting every recording is its own single window")
            continue
        got = [tuple(getattr(w, c).amplitude for c in COMPONENTS) for w in obs[1]]
        ctx.outcome(("unsplit", cls, len(got)))
        if filt or detr:
            ctx.nontrivial_case(("unsplit", rate, label, ci, di, oi, ni))
        text = compare_windows(got, exp[1], exact=orient is None, scale=scale)
        if text is not None:
            which = mismatch_oracle(got, specs, dt, None, corners, detrend, orient, scale)
            ctx.violation(f"C10:preprocess-unsplit:{cls}:{which}", root, detail=case,
                          expected="orient (hvmc.ref.rotation.reorient) -> Butterworth on the whole record -> "
                                   f"(no split) -> detrend the whole record with type {detrend!r}, from "
                                   "TimeSeries.butterworth_filter/detrend",
                          observed=text,
                          explanation=f"preprocess(window_length_in_seconds=None) output is not the "
                                      f"documented pipeline: {text}")
        # non-vacuity: the other detrend type gives an observably different record
        if detr and nrec == "one" and orient is None:
            other = "constant" if detrend == "linear" else "linear"
            w = _call(lambda: pipeline(specs, dt, None, corners, other, orient))
            ctx.count("unsplit_other_detrend_evaluated")
            if w[0] == "raised" or compare_windows(w[1], exp[1], exact=False, scale=scale) is not None:
                ctx.count("unsplit_other_detrend_differs")
        if len(ctx.samples) < 6 and filt and detrend == "constant" and nrec == "three" and orient is not None \
                and not ctx.notes.get("unsplit_sampled"):
            ctx.notes["unsplit_sampled"] = 1
            ctx.sample(dict(kind="unsplit", case=case, windows=len(got), first_window_ns_head=got[0][0][:3]))


# ---------------------------------------------------------------------------
# zero phase

def run_zerophase(root, ctx, tier):
    rate = root["rate"]
    dt = dt_of(rate)
    T = ZERO_PHASE_SECONDS
    n = T * rate + 1
    lo, hi = (T // 3) * rate, (T - T // 3) * rate
    for corners in CORNERS:
        if corners == [None, None]:
            continue
        case = dict(rate=rate, dt=dt, n_samples=n, corners=corners)
        ctx.count("states")
        burst = np.zeros(n)
        mid = (T // 2) * rate
        burst[mid - rate:mid + rate] = _hash_noise(2 * rate, 7)
        burst[mid] += 3.0
        noise = _hash_noise(n, 11) + 0.25
        for name, x, sl in (("burst", burst, slice(0, n)), ("noise", noise, slice(lo, hi))):
            f = _call(lambda: _ts_filter(x, dt, corners))
            b = _call(lambda: _ts_filter(x[::-1].copy(), dt, corners))
            ctx.count("transitions", 2)
            ctx.count("validated")
            if f[0] == "raised" or b[0] == "raised":
                ctx.violation("C10:butterworth_filter:raises", root, detail=dict(case, signal=name),
                              observed=[f[1:] if f[0] == "raised" else "ok", b[1:] if b[0] == "raised" else "ok"],
                              explanation="butterworth_filter raised on a 40 s record")
                continue
            y, yr = f[1], b[1][::-1]
            tol = RTOL * float(np.max(np.abs(y)))
            d = float(np.max(np.abs(y[sl] - yr[sl])))
            ctx.outcome(("zerophase", name, rate, tuple(map(str, corners)), d <= tol))
            if not d <= tol:
                ctx.violation("C10:butterworth_filter:time-reversal", root,
                              detail=dict(case, signal=name, compared_samples=[sl.start, sl.stop]),
                              expected=f"max difference <= {tol:.3g}", observed=d,
                              explanation="filtering the time-reversed record does not give the "
                                          "time-reversed output: the filter is not zero-phase")
            if bitwise_equal(y, x):
                ctx.violation("C10:butterworth_filter:no-effect", root, detail=dict(case, signal=name),
                              explanation="the filter returned the record unchanged")
        # a sinusoid at each corner frequency keeps its phase
        i = np.arange(n, dtype=np.float64)
        for fc in corners:
            if fc is None:
                continue
            xs = np.sin(2 * math.pi * fc * i / rate)
            xc = np.cos(2 * math.pi * fc * i / rate)
            f = _call(lambda: _ts_filter(xs, dt, corners))
            ctx.count("transitions")
            ctx.count("validated")
            if f[0] == "raised":
                ctx.violation("C10:butterworth_filter:raises", root, detail=dict(case, signal=f"sin {fc} Hz"),
                              observed=f[1:], explanation="butterworth_filter raised on a 40 s record")
                continue
            y = f[1][lo:hi]
            g = math.fsum(y * xs[lo:hi]) / math.fsum(xs[lo:hi] ** 2)
            q = math.fsum(y * xc[lo:hi]) / math.fsum(xc[lo:hi] ** 2)
            ctx.outcome(("corner", rate, tuple(map(str, corners)), fc, round(g, 6)))
            ctx.notes[f"corner_gain_max_abs_dev_from_half"] = max(
                ctx.notes.get("corner_gain_max_abs_dev_from_half", 0.0), abs(g - 0.5))
            if not (g > 0 and abs(q) <= 1e-6 * abs(g)):
                ctx.violation("C10:butterworth_filter:corner-phase", root,
                              detail=dict(case, sinusoid_hz=fc, compared_samples=[lo, hi]),
                              expected="in-phase gain > 0, quadrature gain 0",
                              observed=dict(in_phase=g, quadrature=q),
                              explanation="a sinusoid at the corner frequency leaves the filter with a "
                                          "phase shift: not zero-phase")
            elif not 0.25 <= g <= 0.75:
                ctx.violation("C10:butterworth_filter:corner-gain", root,
                              detail=dict(case, sinusoid_hz=fc, compared_samples=[lo, hi]),
                              expected="gain at a corner between 0.25 and 0.75 (0.5 for a forward-backward "
                                       "Butterworth filter of any order)",
                              observed=g,
                              explanation="the corner frequency handed to the filter is not where its "
                                          "response rolls off")


# ---------------------------------------------------------------------------
# history: what was done to OTHER objects earlier in the process must not matter.
#
# Before preprocess is called, unrelated time series with the same time step are filtered through the public
# primitive with the same corners and OTHER filter orders, split with other window lengths and detrended;
# the windows are compared bit for bit with those of the same call in a process without history
# (engine/pristine.py).

_SERVER = None
HISTORY_WINDOWS = ["1", "2.56"]
HISTORY_LENGTHS = ["3k+2", "2k"]


def _history_records(rate, n, k, nrec):
    specs = record_specs(rate, n, k, nrec)
    return [make_record({c: np.array(comps[c]) for c in COMPONENTS}, dt_of(rate), dfn) for comps, dfn in specs]


def _history_call(req):
    rate, window, label = req["rate"], req["window"], req["length"]
    k = RT.intervals(window, rate)
    n = n_samples_of(label, k)
    recs = _history_records(rate, n, k, req["nrec"])
    settings = make_settings(window, req["corners"], req["detrend"], req["orient"])
    out = _call(lambda: hvsrpy.preprocess(recs[0] if req["nrec"] == "one" else recs, settings))
    if out[0] == "raised":
        return out
    return ("ok", [tuple(np.array(getattr(w, c).amplitude) for c in COMPONENTS) for w in out[1]])


def _other_objects_first(rate, corners, window):
    dt = dt_of(rate)
    x = _hash_noise(12 * rate + 7, 5) + 0.5
    for order in (3, 2, 8):
        if corners != [None, None]:
            TimeSeries(np.array(x), dt).butterworth_filter(tuple(corners), order=order)
    ts = TimeSeries(np.array(x), dt)
    for w in ts.split(float(window) * 1.5):
        w.detrend(type="constant")
    TimeSeries(np.array(x[:rate + 1]), dt).detrend(type="linear")


def run_history(root, ctx, tier):
    rate = root["rate"]
    for window in HISTORY_WINDOWS:
        for label in HISTORY_LENGTHS:
            for ci, di, oi, ni in root["cases"]:
                req = dict(rate=rate, window=window, length=label, corners=CORNERS[ci], detrend=DETREND[di],
                           orient=ORIENT[oi], nrec=NREC[ni])
                ctx.count("states")
                want = _SERVER.request(req) if _SERVER is not None else None
                _call(lambda: _other_objects_first(rate, req["corners"], window))
                got = _history_call(req)
                ctx.count("transitions", 2)
                if want is None:
                    continue
                ctx.count("validated")
                ctx.count("history_cases")
                ctx.nontrivial_case(("history", rate, window, label, ci, di, oi, ni))
                same = got[0] == want[0] and (
                    (got[0] == "raised" and got[1:] == want[1:]) or
                    (got[0] == "ok" and len(got[1]) == len(want[1]) and
                     all(bitwise_equal(a, b) for wa, wb in zip(got[1], want[1]) for a, b in zip(wa, wb))))
                ctx.outcome(("history", got[0], len(got[1]) if got[0] == "ok" else got[1]))
                if not same:
                    ctx.violation("C10:preprocess:depends-on-earlier-calls-on-other-objects", root,
                                  detail=dict(req, earlier="butterworth_filter(same corners, order 3 / 2 / 8), split and "
                                                           "detrend of unrelated TimeSeries with the same time step"),
                                  expected="the windows of the same call in a process without history",
                                  observed="other windows" if got[0] == "ok" else got[1:],
                                  explanation="preprocess gives other windows after unrelated objects were filtered "
                                              "/ split / detrended earlier in the process")


# ---------------------------------------------------------------------------
# many recordings with different time steps in one call: the windows of recording i are those of
# preprocess(recording i), in the order of the recordings

MIXED_PATTERNS = [[0, 1, 0], [1, 0, 0, 1], [0, 1, 2, 0, 1], [0, 0, 1]]


def run_mixed(root, ctx, tier):
    rates = root["rates"]
    window = root["window"]
    for pattern in MIXED_PATTERNS:
        for ci, di in root["cases"]:
            corners, detrend = CORNERS[ci], DETREND[di]
            case = dict(rates=[rates[i] for i in pattern], window=window, corners=corners, detrend=detrend)

            def build():
                recs = []
                for pos, i in enumerate(pattern):
                    rate = rates[i]
                    k = RT.intervals(window, rate)
                    n = 2 * k + 3 + pos
                    recs.append(make_record(busy_components(n, rate, 20 + pos), dt_of(rate), 0.0))
                return recs
            settings = make_settings(window, corners, detrend, None)
            settings.ignore_dissimilar_time_step_warning = True
            ctx.count("states")
            joint = _call(lambda: hvsrpy.preprocess(build(), settings))
            singles = [_call(lambda r=r: hvsrpy.preprocess([r], make_settings(window, corners, detrend, None)))
                       for r in build()]
            ctx.count("transitions", 1 + len(pattern))
            ctx.count("validated")
            ctx.count("mixed_dt_cases")
            if joint[0] == "raised" or any(x[0] == "raised" for x in singles):
                if not (joint[0] == "raised" and any(x[0] == "raised" for x in singles)):
                    ctx.violation("C10:preprocess:mixed-time-steps:raises-unlike-single-recordings", root, detail=case,
                                  observed=[joint[:2]] + [x[:2] for x in singles],
                                  explanation="preprocess of the list and of its recordings do not fail alike")
                continue
            want = [w for x in singles for w in x[1]]
            got = joint[1]
            ctx.nontrivial_case(("mixed", tuple(case["rates"]), window, ci, di))
            ctx.outcome(("mixed", len(got), tuple(w.ns.n_samples for w in got)))
            ok = len(got) == len(want) and all(
                w.ns.dt_in_seconds == v.ns.dt_in_seconds and
                all(bitwise_equal(getattr(w, c).amplitude, getattr(v, c).amplitude) for c in COMPONENTS)
                for w, v in zip(got, want))
            if not ok:
                ctx.violation("C10:preprocess:mixed-time-steps:windows-not-in-order-of-recordings", root, detail=case,
                              expected=[(v.ns.n_samples, v.ns.dt_in_seconds) for v in want],
                              observed=[(w.ns.n_samples, w.ns.dt_in_seconds) for w in got],
                              explanation="the windows returned for a list of recordings with different time steps "
                                          "are not the windows of each recording, in the order of the recordings")


# ---------------------------------------------------------------------------
# records that were re-oriented after construction: the orientation step starts from the CURRENT heading

REORIENT_MID = [30, 180]                      # intermediate headings, relative to the deployed one
REORIENT_FINAL = [0, 30, 360, None]           # final requested orientation relative to the deployed heading
REORIENT_HISTORIES = ["orient_sensor_to(a)", "preprocess(orient to a)", "orient_sensor_to(a+55); orient_sensor_to(a)"]


def run_reoriented(root, ctx, tier):
    """History on the SAME record object before the judged preprocess call: the user's orient_sensor_to, an
    earlier preprocess with another orientation, or both.  The record handed to preprocess then has a current
    heading (model: the last requested one) different from the deployed one; the judged call must equal the
    reference pipeline applied to the record's samples as they are before the call, rotated from the CURRENT
    heading.  Full product history x intermediate heading x final orientation x window x corners x detrend."""
    rate, label, deploy = root["rate"], root["length"], root["deploy"]
    dt = dt_of(rate)
    k = RT.intervals("1", rate)
    n = n_samples_of(label, k)
    base = busy_components(n, rate, 4)
    for hist in REORIENT_HISTORIES:
        for mid in REORIENT_MID:
            for fin in REORIENT_FINAL:
                for window in ORIENT_WINDOWS:
                    for corners in ORIENT_CORNERS:
                        for detrend in ORIENT_DETREND:
                            _reoriented_case(root, ctx, rate, dt, n, base, deploy, hist, mid, fin, window, corners, detrend)


def _reoriented_case(root, ctx, rate, dt, n, base, deploy, hist, mid, fin, window, corners, detrend):
    wlen = None if window is None else float(window)
    a = deploy + mid
    target = None if fin is None else deploy + fin
    case = dict(rate=rate, dt=dt, n_samples=n, deployed_at=deploy, history=hist, a=a, orient_to=target,
                window=window, corners=corners, detrend=detrend, records=BUSY_TEXT)
    ctx.count("states")
    rec = make_record({c: np.array(base[c]) for c in COMPONENTS}, dt, deploy)
    if hist.startswith("preprocess"):
        h = _call(lambda: hvsrpy.preprocess(rec, make_settings(window, corners, detrend, a)))
    elif ";" in hist:
        h = _call(lambda: (rec.orient_sensor_to(a + 55), rec.orient_sensor_to(a)))
    else:
        h = _call(lambda: rec.orient_sensor_to(a))
    ctx.count("transitions")
    if h[0] == "raised":
        ctx.count("reoriented_history_refused")
        return
    current = a                                  # model of the heading: the last requested orientation
    snap = {c: np.array(getattr(rec, c).amplitude) for c in COMPONENTS}
    specs = [(snap, current)]
    scale = max(float(np.max(np.abs(snap[c]))) for c in COMPONENTS)
    obs = _call(lambda: hvsrpy.preprocess(rec, make_settings(window, corners, detrend, target)))
    ctx.count("transitions")
    exp = _call(lambda: pipeline(specs, dt, wlen, corners, detrend, target))
    ctx.count("validated")
    ctx.count("reoriented_cases")
    filt = corners != [None, None]
    detr = detrend not in (None, "none")
    cls = ("filter" if filt else "nofilter") + "+" + ("detrend" if detr else "nodetrend") + "+orient"
    site = "preprocess" if window is not None else "preprocess-unsplit"
    if obs[0] == "raised" or exp[0] == "raised":
        if obs[0] != exp[0] or obs[1] != exp[1]:
            ctx.violation(f"C10:{site}:{cls}:reoriented-record:raises-unlike-primitives", root, detail=case,
                          expected=exp[1:] if exp[0] == "raised" else f"{len(exp[1])} windows",
                          observed=obs[1:] if obs[0] == "raised" else f"{len(obs[1])} windows",
                          explanation="preprocess of a re-oriented record and the documented sequence of steps do "
                                      "not fail alike")
        return
    got = [tuple(getattr(w, c).amplitude for c in COMPONENTS) for w in obs[1]]
    back = target is not None and RR.same_direction(target, deploy) and not RR.same_direction(current, deploy)
    ctx.outcome(("reoriented", cls, hist, fin, len(got)))
    ctx.nontrivial_case(("reoriented", rate, deploy, hist, mid, fin, window, str(corners), detrend))
    if back:
        ctx.count("reoriented_back_to_deployed_heading")
        w = _call(lambda: pipeline(specs, dt, wlen, corners, detrend, None))
        if w[0] == "raised" or compare_windows(w[1], exp[1], exact=False, scale=scale) is not None:
            ctx.count("reoriented_back_differs_from_unrotated")
    text = compare_windows(got, exp[1], exact=False, scale=scale)
    if text is None:
        return
    which = "reoriented-record:not-the-pipeline-from-the-current-heading"
    if target is not None:
        alt = _call(lambda: pipeline(specs, dt, wlen, corners, detrend, None))
        if alt[0] == "ok" and compare_windows(got, alt[1], exact=False, scale=scale) is None:
            which = "reoriented-record:orientation-step-skipped"
        else:
            alt = _call(lambda: pipeline([(snap, deploy)], dt, wlen, corners, detrend, target))
            if alt[0] == "ok" and compare_windows(got, alt[1], exact=False, scale=scale) is None:
                which = "reoriented-record:rotated-from-the-deployed-heading-not-the-current-one"
    ctx.violation(f"C10:{site}:{cls}:{which}", root, detail=case,
                  expected="the record as it is before the call (current heading a): " + ORIENT_EXPECTED,
                  observed=text,
                  explanation=f"preprocess of a record deployed at {deploy}, brought to {a} by {hist}, then asked for "
                              f"{target}: {text}")


def warm():
    global _SERVER
    from hvmc.engine import pristine
    _SERVER = pristine.PristineServer(_history_call).start()


# ---------------------------------------------------------------------------
# runner interface

def _order_cases(tier):
    k = QUICK_DEVIATIONS if tier == "quick" else None
    return product.deviations(SPACE, k), product.size(SPACE, k)


def roots(tier, seed):
    out = []
    for rate in RATES:
        for window in WINDOWS:
            out.append(dict(kind="tiling", rate=rate, window=window))
    # huge windows: one root per record (a few million samples each)
    for rate, window, quick_lengths in HUGE:
        for label in (quick_lengths if tier == "quick" else HUGE_LENGTHS):
            out.append(dict(kind="tiling-huge", rate=rate, window=window, lengths=[label]))
    # many windows per record: one root per (rate, window, record length)
    q = tier == "quick"
    for rate in (LONG_RATES if q else LONG_RATES_THOROUGH):
        for window in (LONG_WINDOWS if q else LONG_WINDOWS_THOROUGH):
            for label in (LONG_LENGTHS if q else LONG_LENGTHS_THOROUGH):
                out.append(dict(kind="tiling-long", rate=rate, window=window, lengths=[label]))
    for rate, label in (ORIENT_CONFIGS[:2] if q else ORIENT_CONFIGS):
        for deploy in ORIENT_DEPLOY:
            out.append(dict(kind="orient", rate=rate, length=label, deploy=deploy))
    for rate, label in (ORIENT_CONFIGS[:1] if q else ORIENT_CONFIGS):
        for deploy in (ORIENT_DEPLOY[:4] if q else ORIENT_DEPLOY):
            out.append(dict(kind="reoriented", rate=rate, length=label, deploy=deploy))
    for rate in RATES:
        out.append(dict(kind="zerophase", rate=rate))
    # no splitting: full product of the option dimensions under every (rate, record length)
    unsplit_cases = [[ci, di, oi, ni] for ci in range(len(CORNERS)) for di in range(len(DETREND))
                     for oi in range(len(ORIENT)) for ni in range(len(NREC))]
    for rate in RATES:
        for label in UNSPLIT_LENGTHS:
            out.append(dict(kind="unsplit", rate=rate, length=label, cases=unsplit_cases))
    hist_cases = [[ci, di, oi, ni] for ci in range(len(CORNERS)) for di in (0, 2) for oi in (0, 2)
                  for ni in range(len(NREC))]
    for rate in (RATES[:3] if tier == "quick" else RATES):
        out.append(dict(kind="history", rate=rate, cases=hist_cases if tier != "quick" else hist_cases[::3]))
    for rates in ([100, 50, 75], [300, 128, 500]):
        for window in (["1"] if tier == "quick" else ["1", "2.56", "0.5"]):
            out.append(dict(kind="mixed-dt", rates=rates, window=window,
                            cases=[[ci, di] for ci in range(len(CORNERS)) for di in (0, 1, 2)]))
    groups = {}
    cases, _ = _order_cases(tier)
    for c in cases:
        # thorough: one root per (rate, window, length, corners); quick: per (rate, window, length)
        gk = (c["rate"], c["window"], c["length"]) + ((CORNERS.index(c["corners"]),) if tier != "quick" else ())
        groups.setdefault(gk, []).append([CORNERS.index(c["corners"]), DETREND.index(c["detrend"]),
                                          ORIENT.index(c["orient"]), NREC.index(c["nrec"])])
    for gk, cs in groups.items():
        out.append(dict(kind="order", rate=gk[0], window=gk[1], length=gk[2], cases=cs))
    return out


def run_root(root, ctx, tier):
    kind = root.get("kind")
    if kind in ("tiling", "tiling-huge", "tiling-long"):
        run_tiling(root, ctx, tier)
    elif kind == "unsplit":
        run_unsplit(root, ctx, tier)
    elif kind == "order":
        run_order(root, ctx, tier)
    elif kind == "orient":
        run_orient(root, ctx, tier)
    elif kind == "reoriented":
        run_reoriented(root, ctx, tier)
    elif kind == "zerophase":
        run_zerophase(root, ctx, tier)
    elif kind == "history":
        run_history(root, ctx, tier)
    elif kind == "mixed-dt":
        run_mixed(root, ctx, tier)
    elif kind == "non-vacuity":
        pass        # raised by finalize(); there is no single case to re-execute
    else:
        raise KeyError(kind)


def finalize(ctx, tier):
    global _SERVER
    if _SERVER is not None:
        _SERVER.stop()
        _SERVER = None
    c = ctx.counters
    if c.get("reoriented_back_to_deployed_heading", 0) != c.get("reoriented_back_differs_from_unrotated", 0):
        ctx.violation("C10:harness:non-vacuity:reoriented-back-to-deployed", dict(kind="non-vacuity"),
                      observed=dict(evaluated=c.get("reoriented_back_to_deployed_heading", 0),
                                    differs=c.get("reoriented_back_differs_from_unrotated", 0)),
                      explanation="returning a re-oriented record to its deployed heading was not distinguishable "
                                  "from leaving it as it is")
    for name in ("history_cases", "mixed_dt_cases", "reoriented_cases", "reoriented_back_to_deployed_heading"):
        if not c.get(name, 0):
            ctx.violation(f"C10:harness:non-vacuity:{name}", dict(kind="non-vacuity"),
                          explanation=f"counter {name} is zero: the family never ran")
    for wrong in ("filter-after-split", "detrend-before-split"):
        if not c.get("wrong_order_differs:" + wrong, 0):
            ctx.violation(f"C10:harness:non-vacuity:{wrong}", dict(kind="non-vacuity"),
                          observed=dict(evaluated=c.get("wrong_order_evaluated:" + wrong, 0), differs=0),
                          explanation=f"the wrong order '{wrong}' never differed from the documented one: "
                                      "the order oracle cannot fail on the enumerated cases")
    if c.get("unsplit_cases", 0) and not c.get("unsplit_other_detrend_differs", 0):
        ctx.violation("C10:harness:non-vacuity:unsplit-detrend-type", dict(kind="non-vacuity"),
                      observed=dict(evaluated=c.get("unsplit_other_detrend_evaluated", 0), differs=0),
                      explanation="with window_length_in_seconds=None the detrend types never differed: the "
                                  "unsplit order oracle cannot tell which type was applied")
    for name in ("many_window_cases_with_1000_or_more_windows", "orient_cases", "orient_recordings:half-turn",
                 "orient_recordings:quarter-turn", "orient_recordings:general-turn", "orient_recordings:whole-turn"):
        if not c.get(name, 0):
            ctx.violation(f"C10:harness:non-vacuity:{name}", dict(kind="non-vacuity"),
                          explanation=f"counter {name} is zero: that part of the space was never entered")
    for cl in ("half-turn", "quarter-turn", "general-turn"):
        ev, df = c.get("orient_unrotated_evaluated:" + cl, 0), c.get("orient_unrotated_differs:" + cl, 0)
        if ev == 0 or df != ev:
            ctx.violation(f"C10:harness:non-vacuity:unrotated-{cl}", dict(kind="non-vacuity"),
                          observed=dict(evaluated=ev, differs=df),
                          explanation=f"leaving the sensor as deployed was not distinguishable from a {cl} on every "
                                      "single-recording case: the orientation oracle could not fail there")
    if not c.get("order_cases_both_refuse", 0) and tier != "quick":
        ctx.notes["no_refusal_in_order_cases"] = 1


def describe(tier):
    _, n_order = _order_cases(tier)
    huge = [(r, w, q) for r, w, q in HUGE if tier != "quick" or q]
    n_huge = sum(len(q) if tier == "quick" else len(HUGE_LENGTHS) for _, _, q in huge)
    n_unsplit = len(RATES) * len(UNSPLIT_LENGTHS) * len(CORNERS) * len(DETREND) * len(ORIENT) * len(NREC)
    return dict(
        rule="tiling: full product of 7 sampling rates x 6 window lengths (decimal strings) x 12 record "
             "lengths {k-1..5k+1 samples}, each through TimeSeries.split (3 signals), SeismicRecording3C.split "
             "and preprocess (filter off, detrend 'none'/None, 1 or 3 recordings), windows located in "
             "records with pairwise distinct samples and judged by the exact-rational tiling reference; "
             f"huge windows: {len(huge)} (rate, window) pairs with 2.1e6 <= k <= 3e6 sample intervals per window x "
             + ("the decisive record lengths (k-1 and 2k-1 samples for both pairs, 2k for one)" if tier == "quick"
                else "record lengths {k-1, k, k+1, 2k-1, 2k, 2k+1} samples") +
             f" ({n_huge} records of up to 6 million samples), same call sites (preprocess with detrend 'none', one "
             "recording) and same reference; "
             "order: " + (f"every case within {QUICK_DEVIATIONS} deviations of the default" if tier == "quick"
                          else "the full product") +
             f" of rate x window x record length x 4 corner pairs x 4 detrend modes x 3 orientations x "
             f"{{1, 3}} recordings ({n_order} cases), preprocess compared with the documented pipeline of "
             "public primitives (bitwise; rtol 1e-9 when an orientation is applied); "
             f"unsplit: window_length_in_seconds=None, full product of 7 rates x {len(UNSPLIT_LENGTHS)} record "
             f"lengths x 4 corner pairs x 4 detrend modes x 3 orientations x {{1, 3}} recordings ({n_unsplit} cases), "
             "preprocess compared with orient -> whole-record filter -> detrend of the whole record with the "
             "requested type, one element per recording; zero-phase: 7 rates x 3 "
             "corner pairs x {burst, noise, corner sinusoids} on 40 s records.  A tiling case is non-trivial "
             "when the reference layout has >= 2 windows, an order case when it yields >= 2 windows with "
             "filter or detrend active, an unsplit case when filter or detrend is active; cases are distinct "
             "by their parameters",
        bounds=dict(rates=RATES, windows=WINDOWS, record_lengths=LENGTHS, corners=CORNERS,
                    detrend=DETREND, orientations=ORIENT, recordings=NREC,
                    order_deviation_bound=QUICK_DEVIATIONS if tier == "quick" else "full product",
                    order_cases=n_order,
                    huge_windows=[dict(rate=r, window=w, k=RT.intervals(w, r),
                                       record_lengths=q if tier == "quick" else HUGE_LENGTHS)
                                  for r, w, q in huge],
                    unsplit_record_lengths=UNSPLIT_LENGTHS, unsplit_cases=n_unsplit),
        exhaustive=True,
        assumptions=[
            "dt is passed as the correctly rounded double of 1/rate and the window length as float(decimal string)",
            "for a record of exactly k samples both refusing and returning the single one-short window are "
            "accepted; a final one-short window is allowed but not demanded; any exception counts as refusal",
            "the order oracle uses hvsrpy's own TimeSeries.butterworth_filter/split/detrend and "
            "orient_sensor_to as primitives (split is judged independently by the tiling reference on the "
            "same rate/window/length grid; the rotation itself is C04's subject)",
            "where the rotation is applied in the sequence is not observable beyond rounding; cases with an "
            "orientation are compared with rtol 1e-9 (atol 1e-9 of the record's largest sample)",
            "unsplit record lengths are labelled with k = one second of samples ('25' is an absolute count, "
            "short enough for the band-pass filter to refuse: preprocess and the primitives must fail alike); "
            "with 3 recordings their lengths are n, n+k, n-1 and the second is deployed at 15 degrees",
            "huge-window records are built and freed one at a time (about 0.5 GB per worker at the peak); "
            "window lengths of more than 3e6 intervals are not enumerated",
            "time-reversal symmetry of the filter is compared on the whole record for a burst surrounded by "
            "zeros and on the middle third for noise (edge transients of a 1 Hz corner need about 13 s to decay)",
            "the filter order is not pinned; only a zero quadrature response and a gain in [0.25, 0.75] at "
            "the corner frequencies are required",
        ])


_describe_base = describe


def describe(tier):     # noqa: F811 - the base description plus what later rounds added to the space
    d = _describe_base(tier)
    q = tier == "quick"
    lr, lw, ll = ((LONG_RATES, LONG_WINDOWS, LONG_LENGTHS) if q else
                  (LONG_RATES_THOROUGH, LONG_WINDOWS_THOROUGH, LONG_LENGTHS_THOROUGH))
    oc = ORIENT_CONFIGS[:2] if q else ORIENT_CONFIGS
    n_orient = (len(oc) * len(ORIENT_DEPLOY) * len(ORIENT_TURN) * len(ORIENT_WINDOWS) * len(ORIENT_CORNERS)
                * len(ORIENT_DETREND) * len(NREC))
    d["rule"] += (f" Family tiling-long: full product of {len(lr)} rates x {len(lw)} window lengths that are not "
                  f"exact in binary x {len(ll)} record lengths of 1200 to {'1203' if q else '3000'} windows "
                  f"({len(lr) * len(lw) * len(ll)} records), TimeSeries.split (3 signals), SeismicRecording3C.split and "
                  "preprocess (filter off, detrend 'none', one recording), every window located in the record and "
                  "judged by the exact-rational tiling reference."
                  f" Family orient: full product of {len(oc)} (rate, record length) x {len(ORIENT_DEPLOY)} deployed "
                  f"headings x {len(ORIENT_TURN)} turns (requested orientation = heading + turn) x {{1 s windows, no "
                  f"splitting}} x {len(ORIENT_CORNERS)} corner pairs x {len(ORIENT_DETREND)} detrend modes x {{1, 3}} "
                  f"recordings ({n_orient} cases); preprocess compared (rtol 1e-9) with reference rotation "
                  "(hvmc.ref.rotation.reorient) -> whole-record filter -> split -> detrend per window; the order and "
                  "unsplit families use the same rotation reference. An orient case is non-trivial when some "
                  "recording is turned by other than a whole turn.")
    d["bounds"].update(long_rates=lr, long_windows=lw, long_record_lengths=ll,
                       orient_configs=[list(x) for x in oc], orient_deployed=ORIENT_DEPLOY, orient_turns=ORIENT_TURN,
                       orient_other_recordings_relative=ORIENT_OTHERS, orient_corners=ORIENT_CORNERS,
                       orient_detrend=ORIENT_DETREND, orient_windows=ORIENT_WINDOWS, orient_cases=n_orient)
    d["assumptions"] = [a for a in d["assumptions"] if not a.startswith("the order oracle uses hvsrpy's own")] + [
        "the order, unsplit and orient oracles use hvsrpy's own TimeSeries.butterworth_filter/split/detrend as "
        "primitives (split is judged independently by the tiling reference) and the independent plane rotation "
        "hvmc.ref.rotation.reorient for the orientation step; the window's degrees_from_north label is C04's subject",
        "in the orient family the second and third recording are deployed 180 and 15 degrees from the first and "
        "have n+k and n-1 samples; a requested orientation is the float sum heading + turn",
        "many-window records: preprocess runs with detrend 'none' and one recording only; windows are located by "
        "bisection in the sorted record (values pairwise distinct)",
    ]
    d["rule"] = d["rule"] + " " + 'Family history: 3 (quick) / 7 rates x 2 windows x 2 lengths x option cases; before preprocess other TimeSeries of the same time step are filtered with the same corners and orders 3, 2, 8, split and detrended; the windows are compared bit for bit with those computed in a process without history. Family mixed-dt: lists of 3-5 recordings whose time steps follow the patterns aba, baab, abcab, aab; the result must be the concatenation of the single-recording results.'
    nre = 4 if q else len(ORIENT_CONFIGS) * len(ORIENT_DEPLOY)
    n_re = (nre * len(REORIENT_HISTORIES) * len(REORIENT_MID) * len(REORIENT_FINAL) * len(ORIENT_WINDOWS)
            * len(ORIENT_CORNERS) * len(ORIENT_DETREND))
    d["rule"] += (f" Family reoriented: {nre} (rate, record length, deployed heading) x histories on the same record "
                  f"object {REORIENT_HISTORIES} with a = deployed + {REORIENT_MID} x final orientation = deployed + "
                  f"{REORIENT_FINAL} x {{1 s windows, no splitting}} x {len(ORIENT_CORNERS)} corner pairs x "
                  f"{len(ORIENT_DETREND)} detrend modes ({n_re} cases, one recording): the judged preprocess call "
                  "must equal (rtol 1e-9) the reference pipeline applied to the record's samples as they are before "
                  "the call, rotated from the CURRENT heading (the last requested one), not the deployed one.")
    d["bounds"].update(reoriented_histories=REORIENT_HISTORIES, reoriented_intermediate=REORIENT_MID,
                       reoriented_final=REORIENT_FINAL, reoriented_cases=n_re)
    d["assumptions"].append("reoriented family: the state left by the history (rotated, possibly filtered / detrended "
                            "in place by the earlier preprocess) is read from the record; its heading is modelled as "
                            "the last requested orientation")
    return d
