"""C05 - statistics are the stated estimators over exactly the accepted windows.

E1: BFS over histories of range updates, frequency-domain rejections, manual
rejections and time-domain (maximum value) rejections applied to a real
HvsrTraditional; in every reachable state every statistic accessor is compared
with (i) textbook estimators (math.fsum) over the accepted rows, (ii) a fresh
object built from the accepted windows alone, (iii) the reciprocal (period)
object, (iv) the +n/-n symmetry.
"""
import itertools
import math

import numpy as np

import hvsrpy
from hvsrpy.hvsr_curve import HvsrCurve
from hvsrpy.hvsr_traditional import HvsrTraditional
from hvsrpy.timeseries import TimeSeries
from hvsrpy.seismic_recording_3c import SeismicRecording3C

from hvmc import alphabets as A
from hvmc.engine import explorer
from hvmc.engine.core import close
from hvmc.ref import stats as RS

PROPERTY = "C05"
DISTS = ("lognormal", "normal", "log-normal")
RTOL = 1e-9


def range_menu(f):
    n = len(f)
    return [(None, None), (f[1], f[n - 2]), (None, f[3]), (f[2], None),
            (f[n - 1] + 1.0, f[n - 1] + 2.0),     # excludes every peak
            (f[4], f[1])]                         # inverted / empty


def _nan(v):
    return isinstance(v, float) and math.isnan(v)


def _f(v):
    v = float(v)
    return "nan" if math.isnan(v) else v


def make_records(mask):
    """Records whose largest |sample| is 0.5 (kept) or 2.0 (rejected) at threshold 1."""
    recs = []
    for keep in mask:
        a = np.array([0.1, -0.2, 0.5 if keep else 2.0, 0.05])
        ts = TimeSeries(a, 0.01)
        recs.append(SeismicRecording3C(ts, ts, ts))
    return recs


class Holder:
    def __init__(self, obj):
        self.obj = obj
        self.rng = (None, None)
        self.kw = None


class System:
    def __init__(self, root):
        self.root = root
        F = root["F"]
        self.freq = A.GRIDS[root["grid"]](F)
        self.curves = A.curve_set(root["shapes"], F, root.get("scale_step", 0.125))
        # windows that differ by parts per million: the spread is a small difference of large numbers, so the
        # reference is compared at a tolerance that allows for the conditioning (mean/std ~ 1e6) of that case
        self.rtol = root.get("rtol", RTOL)
        if root.get("rows"):                # explicit windows instead of named shapes
            self.curves = [list(map(float, r)) for r in root["rows"]]
        self.W = len(self.curves)
        if root.get("big"):
            # many windows: manual rejections / re-acceptances in the middle of the record only
            mid = [self.W // 4 + 3, self.W // 2, (3 * self.W) // 4 + 1]
            self.ops = [dict(op="M", i=i) for i in mid] + [dict(op="A", i=mid[1])] + \
                       [dict(op="X", i=mid[0], j=mid[2]), dict(op="X", i=mid[2], j=mid[1])]
            return
        ops = []
        for r in range_menu(self.freq):
            for kw in (None, {}):
                ops.append(dict(op="U", rng=list(r), kw=kw))
        # non-default find_peaks kwargs that change WHICH peak is selected (the highest peaks are filtered out)
        for r in ((None, None), (self.freq[1], self.freq[F - 2])):
            ops.append(dict(op="U", rng=list(r), kw={"height": [None, 3.6]}))
        # a range update whose peak options scipy refuses (ValueError): the object must stay as it was
        for r in ((self.freq[1], self.freq[F - 2]), (None, self.freq[3])):
            ops.append(dict(op="U", rng=list(r), kw={"distance": 0}))
        for n in (0.5, 1, 2):
            for dfn, dmc in itertools.product(("lognormal", "normal"), repeat=2):
                for r in ((None, None), (self.freq[1], self.freq[F - 2])):
                    ops.append(dict(op="F", n=n, dfn=dfn, dmc=dmc, rng=list(r)))
        for i in range(self.W):
            ops.append(dict(op="M", i=i))
        if root.get("reaccept"):
            # manual mask edits: re-accept one window; reject one and re-accept another in one step
            # (same number of accepted windows, different set)
            for i in range(self.W):
                ops.append(dict(op="A", i=i))
                for j in range(self.W):
                    if i != j:
                        ops.append(dict(op="X", i=i, j=j))
        for m in itertools.product((True, False), repeat=self.W):
            if sum(m) >= 2 and not all(m):
                ops.append(dict(op="T", mask=list(m)))
        ops.append(dict(op="T", mask=[True] * self.W))
        self.ops = ops

    def initial(self, root):
        return Holder(HvsrTraditional(self.freq, self.curves))

    def menu(self, h):
        return self.ops

    def apply(self, h, op):
        o = h.obj
        try:
            if op["op"] == "U":
                kw = None if op["kw"] is None else dict(op["kw"])
                try:
                    o.update_peaks_bounded(search_range_in_hz=tuple(op["rng"]), find_peaks_kwargs=kw)
                finally:
                    _reuse_dict(kw)
                h.rng, h.kw = tuple(op["rng"]), op["kw"]
            elif op["op"] == "F":
                h.rng, h.kw = tuple(op["rng"]), None
                hvsrpy.frequency_domain_window_rejection(o, n=op["n"], distribution_fn=op["dfn"],
                                                         distribution_mc=op["dmc"],
                                                         search_range_in_hz=tuple(op["rng"]))
            elif op["op"] == "M":
                o.valid_window_boolean_mask[op["i"]] = False
                o.valid_peak_boolean_mask[op["i"]] = False
            elif op["op"] in ("A", "X"):
                if op["op"] == "X":
                    o.valid_window_boolean_mask[op["i"]] = False
                    o.valid_peak_boolean_mask[op["i"]] = False
                k = op["j"] if op["op"] == "X" else op["i"]
                if not math.isnan(float(o._main_peak_frq[k])):
                    o.valid_window_boolean_mask[k] = True
                    o.valid_peak_boolean_mask[k] = True
            elif op["op"] == "T":
                hvsrpy.maximum_value_window_rejection(make_records(op["mask"]),
                                                      maximum_value_threshold=1.0,
                                                      normalized=False, hvsr=o)
        except Exception as e:      # noqa: BLE001 - rejection may leave its domain (C06 judges that)
            return ("raised", type(e).__name__)
        return None

    def _peaks(self, h):
        """Per-window peak (frequency, amplitude) for the current range, from
        fresh single-curve objects (C08 checks those)."""
        out = []
        for y in self.curves:
            c = HvsrCurve(self.freq, y)
            c.update_peaks_bounded(search_range_in_hz=h.rng, find_peaks_kwargs=h.kw)
            out.append((float(c.peak_frequency), float(c.peak_amplitude)))
        return out

    def canon(self, h):
        o = h.obj
        return (tuple(np.asarray(o.valid_window_boolean_mask).tolist()),
                tuple(np.asarray(o.valid_peak_boolean_mask).tolist()),
                tuple(None if v is None else float(v) for v in h.rng),
                repr(h.kw or None),
                tuple(_f(v) for v in o._main_peak_frq),
                # the range the object itself has recorded (differs from the driver's only after a refused update)
                tuple(None if v is None else float(v) for v in (o._search_range_in_hz or ())),
                repr(o.meta.get("search_range_in_hz")))

    def observe(self, h):
        o = h.obj
        obs = []
        for d in ("lognormal", "normal"):
            for name, args in ACCESSORS:
                obs.append(_nonan(_call(o, name, args, d)))
        for name in ("peak_frequencies", "peak_amplitudes"):
            raw = getattr(o, name)
            obs.append(_nonan(tuple(np.asarray(raw, dtype=float).tolist())))
            _scribble(raw, o)
        return tuple(obs)

    # ---- invariant ---------------------------------------------------------
    def invariant(self, h, hist, ctx, root):
        o = h.obj
        vw = np.asarray(o.valid_window_boolean_mask, dtype=bool)
        vp = np.asarray(o.valid_peak_boolean_mask, dtype=bool)
        peaks = self._peaks(h)
        # model of the masks for the predictable operations
        if hist:
            op = hist[-1]
            if op["op"] == "T":
                if vw.tolist() != op["mask"] or vp.tolist() != op["mask"]:
                    ctx.violation("C05:mask-after-time-domain-rejection", root, detail=dict(hist=list(hist)),
                                  expected=op["mask"], observed=[vw.tolist(), vp.tolist()],
                                  explanation="masks after maximum_value_window_rejection(hvsr=...) differ "
                                              "from the selection")
        # stored peaks agree with the current range (stale peak detection)
        stored = [float(v) for v in o._main_peak_frq]
        if [(_f(a)) for a in stored] != [_f(p[0]) for p in peaks]:
            ctx.violation("C05:stored-peaks-stale", root, detail=dict(hist=list(hist)),
                          expected=[_f(p[0]) for p in peaks], observed=[_f(a) for a in stored],
                          explanation="per-window peaks do not correspond to the current range")
        n_acc = int(vw.sum())
        if n_acc < 2:
            ctx.count("states_outside_quantifier")
            return
        ctx.count("validated")
        rows = [self.curves[i] for i in range(self.W) if vw[i]]
        acc_pk = [(peaks[i][0], peaks[i][1]) for i in range(self.W)
                  if vp[i] and not math.isnan(peaks[i][0])]
        nanpeak = any(vp[i] and math.isnan(peaks[i][0]) for i in range(self.W))
        cls = "nanpeak-accepted" if nanpeak else "plain"
        ctx.outcome((vw.tolist(), vp.tolist(), [_f(p[0]) for p in peaks]))
        fresh = self._fresh(h, vw, vp)
        zero_in_accepted = any(v == 0.0 for r in rows for v in r)
        for d in DISTS:
            exp = {}
            if d != "normal" and zero_in_accepted:
                # log(0): the spread is undefined (outside the estimator's domain), but the geometric mean of a
                # set that contains a zero IS zero, and is the plain estimator at every other frequency
                ctx.count("lognormal_curves_skipped_zero_amplitude_accepted")
                cols = list(zip(*rows))
                exp["mean_curve"] = [0.0 if any(v == 0.0 for v in col) else RS.mean(list(col), d) for col in cols]
            else:
                exp["mean_curve"] = RS.mean_curve(rows, d)
                exp["std_curve"] = RS.std_curve(rows, d)
                for n in (-1, 1, 2):
                    exp[f"nth_std_curve({n})"] = RS.nth_std_curve(n, rows, d)
            if len(acc_pk) >= 2:
                fs = [p[0] for p in acc_pk]
                am = [p[1] for p in acc_pk]
                exp["mean_fn_frequency"] = RS.mean(fs, d)
                exp["mean_fn_amplitude"] = RS.mean(am, d)
                exp["std_fn_frequency"] = RS.std(fs, d)
                exp["std_fn_amplitude"] = RS.std(am, d)
                for n in (-1, 1, 2.5):
                    exp[f"nth_std_fn_frequency({n})"] = RS.nth_std(n, fs, d)
                    exp[f"nth_std_fn_amplitude({n})"] = RS.nth_std(n, am, d)
                exp["cov_fn"] = RS.cov(fs, am, d)
            for name, args in ACCESSORS:
                label = name if not args else f"{name}({args[0]})"
                if label not in exp:
                    continue
                got = _call(o, name, args, d)
                ctx.count("accessor_comparisons")
                if isinstance(got, tuple) and got and got[0] == "raised":
                    ctx.violation(f"C05:{name}:{d}:{cls}:raises", root,
                                  detail=dict(hist=list(hist), accessor=label, distribution=d),
                                  expected=exp[label], observed=got,
                                  explanation=f"{label}({d!r}) raised with >= 2 accepted windows")
                    continue
                if not close(got, exp[label], rtol=self.rtol, atol=1e-12):
                    ctx.violation(f"C05:{name}:{d}:{cls}:ref", root,
                                  detail=dict(hist=list(hist), accessor=label, distribution=d,
                                              valid_window=vw.tolist(), valid_peak=vp.tolist()),
                                  expected=exp[label], observed=got,
                                  explanation=f"{label}({d!r}) differs from the textbook estimator over the "
                                              f"accepted windows")
                # fresh object built from the accepted windows alone
                if fresh is not None:
                    g2 = _call(fresh, name, args, d)
                    if not _same(got, g2):
                        ctx.violation(f"C05:{name}:{d}:{cls}:fresh", root,
                                      detail=dict(hist=list(hist), accessor=label, distribution=d),
                                      expected=g2, observed=got,
                                      explanation=f"{label}({d!r}) differs from an object built from the "
                                                  f"accepted windows alone")
            # mean-curve peak: peak of the implementation's own mean curve in the current range
            mc = _call(o, "mean_curve", (), d)
            if not (isinstance(mc, tuple) and mc and mc[0] == "raised") and \
                    not (d != "normal" and zero_in_accepted):
                try:
                    c = HvsrCurve(self.freq, list(mc))
                except ValueError as e:     # a mean curve that is not a valid curve (nan / negative values)
                    ctx.violation(f"C05:mean_curve:{d}:not-a-valid-curve", root, detail=dict(hist=list(hist)),
                                  observed=str(e), explanation="mean_curve() returned values that are not a valid "
                                                               "HVSR curve (nan, inf or negative)")
                    continue
                c.update_peaks_bounded(search_range_in_hz=h.rng, find_peaks_kwargs=h.kw)
                got = _call(o, "mean_curve_peak", (), d)
                want = ("raised", "ValueError") if math.isnan(c.peak_frequency) else \
                    (float(c.peak_frequency), float(c.peak_amplitude))
                if not _same(got, want):
                    ctx.violation(f"C05:mean_curve_peak:{d}:{cls}:ref", root,
                                  detail=dict(hist=list(hist), distribution=d, range=list(h.rng)),
                                  expected=want, observed=got,
                                  explanation="mean_curve_peak is not the peak of the mean curve in the "
                                              "current search range")
            # symmetry of +n / -n
            if len(acc_pk) >= 2:
                for acc in ("nth_std_fn_frequency", "nth_std_fn_amplitude"):
                    m = _call(o, acc.replace("nth_std", "mean"), (), d)
                    lo = _call(o, acc, (-1.5,), d)
                    hi = _call(o, acc, (1.5,), d)
                    if any(isinstance(x, tuple) for x in (m, lo, hi)):
                        continue
                    ok = close(lo * hi, m * m, rtol=RTOL) if d != "normal" else close(lo + hi, 2 * m, rtol=RTOL)
                    if not ok:
                        ctx.violation(f"C05:{acc}:{d}:{cls}:symmetry", root,
                                      detail=dict(hist=list(hist), distribution=d), expected=m, observed=[lo, hi],
                                      explanation="+n and -n standard-deviation values are not symmetric "
                                                  "about the mean/median")
        # every spelling the library accepts for a distribution is the same distribution
        for canonical, other in (("lognormal", "LogNormal"), ("lognormal", "LOG-NORMAL"), ("normal", "Normal")):
            for name, args in (("mean_fn_frequency", ()), ("std_fn_frequency", ()), ("std_fn_amplitude", ()),
                               ("nth_std_fn_frequency", (1,)), ("cov_fn", ()), ("mean_curve", ()), ("std_curve", ()),
                               ("nth_std_curve", (-1,))):
                a = _call(o, name, args, canonical)
                b = _call(o, name, args, other)
                if isinstance(b, tuple) and b and b[0] == "raised":
                    # a spelling that an accessor refuses (loudly) is not a distribution it computes
                    ctx.count("spelling_refused_by_accessor")
                    continue
                ctx.count("spelling_comparisons")
                if _nonan(a) != _nonan(b):
                    ctx.violation(f"C05:{name}:spelling-of-the-distribution:{cls}", root,
                                  detail=dict(hist=list(hist), accessor=name, spellings=[canonical, other]),
                                  expected=_nonan(a), observed=_nonan(b),
                                  explanation=f"{name}({other!r}) differs from {name}({canonical!r}) although the "
                                              f"library accepts both spellings for the same distribution")
        # reciprocal (period) consistency, ranges with on-grid or open limits only
        if len(acc_pk) >= 2 and not nanpeak:
            self._reciprocal(h, hist, ctx, root, vw, vp)

    def _fresh(self, h, vw, vp):
        idx = [i for i in range(self.W) if vw[i]]
        try:
            f = HvsrTraditional(self.freq, [self.curves[i] for i in idx])
            f.update_peaks_bounded(search_range_in_hz=h.rng, find_peaks_kwargs=h.kw)
            f.valid_window_boolean_mask = np.array([bool(vw[i]) for i in idx])
            f.valid_peak_boolean_mask = np.array([bool(vp[i]) for i in idx])
            return f
        except Exception:       # noqa: BLE001
            return None

    def _reciprocal(self, h, hist, ctx, root, vw, vp):
        lo, hi = h.rng
        if (lo is not None and lo not in self.freq) or (hi is not None and hi not in self.freq):
            return
        if lo is not None and hi is not None and lo >= hi:
            return
        o = h.obj
        pf = [1.0 / f for f in reversed(self.freq)]
        pc = [list(reversed(y)) for y in self.curves]
        r = HvsrTraditional(pf, pc)
        r.update_peaks_bounded(search_range_in_hz=(None if hi is None else 1.0 / hi,
                                                   None if lo is None else 1.0 / lo),
                               find_peaks_kwargs=h.kw)
        # The index slice [lo, hi) is not symmetric under reversal, so peaks
        # next to a limit may differ; only compare when the peak sets agree.
        a = sorted(1.0 / float(v) for v in r._main_peak_frq if not math.isnan(v))
        b = sorted(float(v) for v in o._main_peak_frq if not math.isnan(v))
        if len(a) != len(b) or not close(a, b, rtol=1e-12):
            ctx.count("reciprocal_skipped_boundary")
            return
        if [math.isnan(v) for v in r._main_peak_frq] != [math.isnan(v) for v in o._main_peak_frq]:
            ctx.count("reciprocal_skipped_boundary")
            return
        r.valid_window_boolean_mask = np.array(vw)
        r.valid_peak_boolean_mask = np.array(vp)
        ctx.count("reciprocal_checked")
        m_f = o.mean_fn_frequency("lognormal")
        m_t = r.mean_fn_frequency("lognormal")
        s_f = o.std_fn_frequency("lognormal")
        s_t = r.std_fn_frequency("lognormal")
        if not (close(m_t, 1.0 / m_f, rtol=RTOL) and close(s_t, s_f, rtol=1e-7, atol=1e-12)):
            ctx.violation("C05:reciprocal-consistency", root, detail=dict(hist=list(hist)),
                          expected=[1.0 / m_f, s_f], observed=[m_t, s_t],
                          explanation="lognormal median/std of the period are not the reciprocal/equal of "
                                      "those of the frequency")


ACCESSORS = [("mean_fn_frequency", ()), ("mean_fn_amplitude", ()),
             ("std_fn_frequency", ()), ("std_fn_amplitude", ()),
             ("nth_std_fn_frequency", (-1,)), ("nth_std_fn_frequency", (1,)), ("nth_std_fn_frequency", (2.5,)),
             ("nth_std_fn_amplitude", (-1,)), ("nth_std_fn_amplitude", (1,)), ("nth_std_fn_amplitude", (2.5,)),
             ("cov_fn", ()), ("mean_curve", ()), ("std_curve", ()),
             ("nth_std_curve", (-1,)), ("nth_std_curve", (1,)), ("nth_std_curve", (2,)),
             ("mean_curve_peak", ())]


def _call(o, name, args, d):
    try:
        with np.errstate(all="ignore"):
            v = getattr(o, name)(*args, distribution=d)
    except Exception as e:      # noqa: BLE001
        return ("raised", type(e).__name__)
    if isinstance(v, tuple):
        return tuple(float(x) for x in v)
    raw = v
    v = np.asarray(v, dtype=float)
    if v.ndim == 0:
        return float(v)
    out = tuple(map(tuple, v.tolist())) if v.ndim == 2 else tuple(v.tolist())
    _scribble(raw, o)
    return out


def _reuse_dict(kw):
    """The caller owns the options dict it passed and re-uses it for something else after the call."""
    if isinstance(kw, dict):
        kw.clear()
        kw["width"] = 7


def _scribble(raw, owner=None):
    """The caller owns what an accessor returned: overwrite it in place (as ``a /= a.max()`` or
    ``np.reciprocal(p, out=p)`` would) so that a later answer computed from shared storage is wrong.
    The object's public data attributes (``amplitude``, ``frequency``) are the object's data, not a returned
    result: a diffuse-field object's mean curve IS its amplitude attribute and is left alone."""
    if not (isinstance(raw, np.ndarray) and raw.flags.writeable and raw.dtype.kind == "f"):
        return
    for name in ("amplitude", "frequency"):
        data = getattr(owner, name, None)
        if isinstance(data, np.ndarray) and np.shares_memory(raw, data):
            return
    raw.fill(-7.25)


def _nonan(v):
    if isinstance(v, tuple):
        return tuple(_nonan(x) for x in v)
    if isinstance(v, float) and math.isnan(v):
        return "nan"
    return v


def _same(a, b):
    if isinstance(a, tuple) and a and a[0] == "raised":
        return isinstance(b, tuple) and b and b[0] == "raised" and a[1] == b[1]
    if isinstance(b, tuple) and b and b[0] == "raised":
        return False
    return close(a, b, rtol=1e-12, atol=0.0)


# very repeatable windows: the same shape scaled by 1 + w * 2**-19 (1.9 ppm steps)
NEAR_ROOTS = [dict(grid="lin", F=7, shapes=["p3"] * 4, depth=1, scale_step=2.0 ** -19, rtol=1e-6),
              dict(grid="geo", F=7, shapes=["twopk"] * 3, depth=1, scale_step=2.0 ** -19, rtol=1e-6)]


# a record of 1500 windows (statistics are looked at between the operations: touch mode)
BIG_ROOT = dict(grid="lin", F=7, shapes=(["p2", "p3", "p4", "twopk", "p3", "q3"] * 250), depth=2, touch=True,
                big=True, scale_step=2.0 ** -10)


def roots(tier, seed):
    if tier == "quick":
        sets = [["p2", "p4", "twopk", "p3"], ["p1", "p5", "p3", "q3"], ["p2", "p2", "p4", "up"],
                ["twopk", "twopk_r", "tie", "p3"], ["plateau", "p2", "p3", "flat"],
                ["p2", "p3", "steep_up", "p4"], ["up", "down", "p3", "p4"],
                ["p1", "p2", "p3", "p4"], ["flat", "flat", "p2", "p5"], ["p3", "p3", "p3", "p4"],
                ["p2", "p3", "p5"], ["p2", "steep_up", "p2"], ["twopk", "p4", "up"], ["p1", "q3", "tie"]]
        out = [dict(grid="lin", F=7, shapes=s, depth=2) for s in sets]
        out += [dict(grid="geo", F=7, shapes=s, depth=2) for s in sets[:6]]
        # histories that look at the statistics between operations, with manual re-acceptance
        out += [dict(grid="lin", F=7, shapes=s, depth=2, touch=True, reaccept=True) for s in (sets[0], sets[10])]
        # a window with exactly zero amplitude at some frequencies: once rejected it must not matter
        out.append(dict(grid="lin", F=7, shapes=["p3", "dead", "p4", "p2"], depth=2, reaccept=True))
        out += NEAR_ROOTS
        out.append(BIG_ROOT)
        return out
    out = []
    for r in A.curve_set_roots([3], 7, A.REDUCED_SHAPES + ["steep_up"], grids=("lin",)):
        out.append(dict(depth=3, **r))
    for r in A.curve_set_roots([4], 7, A.REDUCED_SHAPES, grids=("lin",)):
        out.append(dict(depth=2, **r))
    out.append(dict(grid="lin", F=7, shapes=["p3", "dead", "p4", "p2"], depth=2, reaccept=True))
    out.append(dict(grid="lin", F=7, shapes=["dead", "p3", "p4"], depth=3, reaccept=True))
    out += NEAR_ROOTS
    out.append(dict(BIG_ROOT, depth=3))
    for s in (["p2", "p4", "twopk", "p3"], ["p2", "p3", "p5"], ["p1", "q3", "tie"], ["p2", "steep_up", "p2"]):
        out.append(dict(grid="lin", F=7, shapes=s, depth=3 if len(s) == 3 else 2, touch=True, reaccept=True))
    for s in (["p1", "p2", "p3", "p4", "p5"], ["p2", "twopk", "up", "p4", "q3"],
              ["tie", "plateau", "p3", "steep_up", "p2"]):
        out.append(dict(grid="geo", F=7, shapes=s, depth=2))
    return out


def run_root(root, ctx, tier):
    sysm = System(root)
    explorer.bfs(sysm, root, root["depth"], ctx, key_prefix="C05", touch=bool(root.get("touch")))
    ctx.nontrivial_case((root["grid"], root["shapes"]))
    if len(ctx.samples) < 3:
        ctx.sample(dict(root=root, menu_size=len(sysm.ops), first_ops=sysm.ops[:3] + sysm.ops[-2:]))


def describe(tier):
    return dict(
        rule="roots: curve sets (products of named shapes, W=3..5 windows, F=7) as HvsrTraditional; BFS over all "
             "histories of {12 range updates, 24 frequency-domain rejections, W manual rejections, all "
             "maximum-value rejections leaving >=2 windows} up to the root's depth; states deduplicated on "
             "(masks, range, per-window peaks); a case is non-trivial/distinct by (grid, shapes); judged in "
             "every state with >= 2 accepted windows; 'near' roots hold one shape scaled by 1 + w*2^-19 (windows that differ "
             "by parts per million, reference compared at rtol 1e-6); the harness is a caller that owns what crosses the "
             "API: every array an accessor returns is overwritten in place and every options dict passed is cleared and "
             "refilled before the state is judged",
        bounds=dict(depth="2 quick; 3 for W=3 and 2 for W>=4 thorough"),
        exhaustive=True,
        assumptions=["per-window peaks are taken from fresh HvsrCurve objects (C08 judges those)",
                     "the reciprocal comparison is made only for ranges with open or on-grid limits and when "
                     "reversal does not move a peak across a limit"])


_describe_base = describe


def describe(tier):     # noqa: F811 - the base description plus what later rounds added to the space
    d = _describe_base(tier)
    d["rule"] = d["rule"] + " " + ("The menus hold range updates whose peak options scipy refuses; every spelling of a "
                                   "distribution that an accessor accepts is compared with the canonical spelling; the "
                                   "lognormal mean curve is judged where an accepted window holds an exact zero; one root "
                                   "holds 1500 windows (manual rejections / re-acceptances in the middle of the record, "
                                   "touch mode).")
    return d
