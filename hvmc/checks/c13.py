"""C13 - time-domain rejection keeps exactly the windows that satisfy the criterion.

E2.  For every window list of a finite list set, every configuration within k
deviations of the default configuration (k depends on the list class and the
tier, ``None`` = full product) and, inside every such configuration, the
COMPLETE grid of limits x amplitude factors (STA/LTA) or thresholds x
amplitude factors (maximum value), the real ``sta_lta_window_rejection`` /
``maximum_value_window_rejection`` is executed on fresh recordings and an HVSR
object with renewed masks and judged:

* returned list: the same objects, original order (identity matching);
* clear windows (``ref.stalta``: every plausible reading of the sample counts
  agrees with relative margin 1e-6) are kept / rejected as the reference says;
  maximum value: decision == ``ref.maxvalue`` (ties not decided);
* both masks of the attached HvsrTraditional / every azimuth of HvsrAzimuthal
  equal the returned selection (objects with fresh and with pre-set masks);
* independent of clarity (real code against real code): the decision of a
  window equals the decision for the one-window list [w]; it is the same under
  the factors 1e-3 and 1e3; it can only turn from reject to keep when a limit
  is widened; the decision for a component tuple is the AND of the
  single-component decisions.

Family ``sta_lta_same_n`` (one root = n, an ORDER of time steps, sta/lta seconds,
mode): inside one root - one process - windows of n samples at dt1 are screened
and then windows of the same n samples at dt2 != dt1 (successive calls, over
the whole grid of components x limits; or one mixed list holding windows of
every time step), each call judged by ``ref.stalta`` with the window's own time
step; bursts and steps are placed so that the chunk layout of the other time
step gives another verdict (a decision must not depend on what was screened
before with the same sample count).

Family ``history`` (one root = attached object kind, components, optional first
operation): every history of at most ``depth`` calls - refused calls included
(STA / LTA longer than every window or than a later window of a list of unequal
lengths, a component that does not exist) - on one attached object; after the
last call the masks equal the returned selection or, when the call was refused
and returned none, what they were before the call.

Family ``curves`` (one root = object kind, peak search range, mask origin, a block
of curve-shape assignments): the attached object holds EVERY assignment of curve
shapes - with a peak, rising, falling, flat, ..., a peak cut off by a bounded
search range - to its 3 windows, its masks are those hvsrpy itself left after the
peak search, all True, or pre-set; x {S, M}^3 window lists (every selection
pattern) x STA/LTA and maximum-value calls; both masks on every azimuth equal the
returned selection also where the curve of a kept window has no peak.
"""
import itertools
import math

import numpy as np

from hvsrpy.timeseries import TimeSeries
from hvsrpy.seismic_recording_3c import SeismicRecording3C
from hvsrpy.hvsr_traditional import HvsrTraditional
from hvsrpy.hvsr_azimuthal import HvsrAzimuthal
from hvsrpy.window_rejection import sta_lta_window_rejection, maximum_value_window_rejection

from hvmc import alphabets as A
from hvmc.engine import product
from hvmc.ref import stalta as RS
from hvmc.ref import maxvalue as RM

PROPERTY = "C13"
ALL = ("ns", "ew", "vt")

# ---------------------------------------------------------------------------
# signal alphabet: carrier (different on every component) x envelope x scale

WINDOW_SECONDS = 4
NSAMPLES = {0.01: 400, 0.02: 200}

# carrier[i] = scale * (((a*i + b) mod 17) - centre) / 8 : period 17, small rationals.
# ns is symmetric (largest |sample| occurs with both signs), ew has its largest
# |sample| positive, vt negative.
CARRIER = {"ns": (5, 3, 8, 1.0), "ew": (7, 1, 7, 0.75), "vt": (11, 6, 9, 0.5)}

SPIKE = 20.0
ENVELOPES = ("flat", "spike_e", "spike_m", "spike_l", "drop", "grow")


def envelope(name, n):
    if name == "flat":
        return [1.0] * n
    if name in ("spike_e", "spike_m", "spike_l"):
        a, b = {"spike_e": (0.05, 0.125), "spike_m": (0.525, 0.6), "spike_l": (0.8875, 0.9625)}[name]
        lo, hi = int(a * n), int(b * n)
        return [SPIKE if lo <= i < hi else 1.0 for i in range(n)]
    if name == "drop":                      # near-zero stretch
        lo, hi = n // 2, (3 * n) // 4
        return [1.0 / 64 if lo <= i < hi else 1.0 for i in range(n)]
    if name == "grow":                      # linearly growing 0.25 -> 2
        return [0.25 + 1.75 * i / n for i in range(n)]
    raise KeyError(name)


def carrier(comp, n):
    a, b, c, s = CARRIER[comp]
    return [s * (((a * i + b) % 17) - c) / 8.0 for i in range(n)]


# window name -> ((envelope ns, ew, vt), scale)
WINDOWS = {
    "S": (("flat", "flat", "flat"), 1.0),            # stationary
    "E": (("spike_e", "flat", "flat"), 1.0),         # early spike on ns
    "M": (("flat", "spike_m", "flat"), 1.0),         # middle spike on ew
    "L": (("flat", "flat", "spike_l"), 1.0),         # late spike on vt
    "D": (("drop", "flat", "flat"), 1.0),            # dropout on ns
    "G": (("flat", "grow", "grow"), 1.0),            # growing on ew and vt
    "S8": (("flat", "flat", "flat"), 8.0),           # scaled copy of S
    "Eq": (("spike_e", "flat", "flat"), 0.25),       # scaled copy of E
}
ALPHA = list(WINDOWS)
R4 = ["S", "M", "D", "G"]
R3 = ["S", "M", "D"]

_ARR = {}


def window_arrays(name, dt):
    """dict component -> ndarray of the named window at amplitude factor 1."""
    key = (name, dt)
    if key not in _ARR:
        n = NSAMPLES[dt]
        envs, scale = WINDOWS[name]
        _ARR[key] = {c: np.array([scale * e * v for e, v in zip(envelope(en, n), carrier(c, n))])
                     for c, en in zip(ALL, envs)}
    return _ARR[key]


_SCALED = {}


def scaled_arrays(name, dt, factor):
    key = (name, dt, factor)
    if key not in _SCALED:
        _SCALED[key] = {c: a * factor for c, a in window_arrays(name, dt).items()}
    return _SCALED[key]


def make_records(ws, dt, factor):
    """Fresh recordings (one object per list position)."""
    recs = []
    for w in ws:
        a = scaled_arrays(w, dt, factor)
        recs.append(SeismicRecording3C(TimeSeries(a["ns"], dt), TimeSeries(a["ew"], dt),
                                       TimeSeries(a["vt"], dt)))
    return recs


# ---------------------------------------------------------------------------
# HVSR objects

FREQ = A.lin_grid(7)
SHAPES_A = ["p2", "p3", "p4", "p5"]
SHAPES_B = ["p4", "twopk", "p1", "q3"]
HVSR_KINDS = ["none", "trad", "azi", "trad_pre", "azi_pre"]


def make_hvsr(kind, n):
    if kind == "none":
        return None
    if kind.startswith("trad"):
        h = HvsrTraditional(FREQ, A.curve_set(SHAPES_A[:n], 7))
    else:
        h = HvsrAzimuthal([HvsrTraditional(FREQ, A.curve_set(SHAPES_A[:n], 7)),
                           HvsrTraditional(FREQ, A.curve_set(SHAPES_B[:n], 7))], [0.0, 90.0])
    reset_masks(h, kind, n)
    return h


def reset_masks(h, kind, n):
    """Give every mask a new array: all True (fresh object) or, for the *_pre
    kinds, the state of an object that already carries rejections."""
    if h is None:
        return
    pre = kind.endswith("_pre")
    for t in ([h] if kind.startswith("trad") else h.hvsrs):
        t.valid_window_boolean_mask = np.array([i % 2 == 1 if pre else True for i in range(n)])
        t.valid_peak_boolean_mask = np.array([i % 2 == 0 if pre else True for i in range(n)])


# ---------------------------------------------------------------------------
# spaces

COMPS = [("ns", "ew", "vt"), ("vt", "ew", "ns"),
         ("ns",), ("ew",), ("vt",),
         ("ns", "ew"), ("ew", "ns"), ("ns", "vt"), ("vt", "ns"), ("ew", "vt"), ("vt", "ew")]
STA_SPACE = dict(comps=COMPS, sta=[1, 0.5, 0.1], lta=["window", 2, 1],
                 hvsr=HVSR_KINDS, dt=[0.01, 0.02])
MINS = [0.2, 0.0, 0.5, 0.8]
MAXS = [2.5, 1.25, 8.0, 50.0]
# 1e-8: records in physical units (m/s); 1e-20 / 1e20: far below / above any absolute epsilon or cap
FACTORS = [1.0, 1e-3, 1e3, 1e-8, 1e-20, 1e20]
LIMITS = [(lo, hi) for lo in MINS for hi in MAXS]
# one-step widenings: (narrow, wide)
_SM, _SX = sorted(MINS), sorted(MAXS)
WIDENINGS = [((_SM[i + 1], hi), (_SM[i], hi)) for i in range(len(_SM) - 1) for hi in MAXS] + \
            [((lo, _SX[j]), (lo, _SX[j + 1])) for j in range(len(_SX) - 1) for lo in MINS]

MAX_SPACE = dict(comps=COMPS, hvsr=HVSR_KINDS)
MAX_DT = 0.01
# (normalized, threshold); absolute thresholds are multiplied by the amplitude factor
CRITS = [(True, 0.9), (True, 0.04), (True, 0.3), (True, 1.0), (True, 2.0),
         (False, 0.5), (False, 1.0), (False, 3.0), (False, 9.0), (False, 100.0)]


# ---------------------------------------------------------------------------
# reference, cached

_VAR = {}
_CLS = {}


def variants(w, comp, factor, dt, sta, lta):
    """Plausible (min, max) ratio pairs of one component of one window.

    Both tests of ``ref.stalta.classify`` are monotone in the ratio, so a
    reading is represented by its smallest and largest ratio.
    """
    key = (w, comp, factor, dt, sta, lta)
    if key not in _VAR:
        x = scaled_arrays(w, dt, factor)[comp].tolist()
        vs = RS.ratio_variants(x, dt, sta, lta)
        _VAR[key] = [dict(chunk=v["chunk"], lta_len=v["lta_len"], lta_from=v["lta_from"],
                          ratios=[min(v["ratios"]), max(v["ratios"])]) for v in vs]
    return _VAR[key]


def comp_class(w, comp, factor, dt, sta, lta, lo, hi):
    """(class, knife_edge) of one component of one window for one pair of limits."""
    key = (w, comp, factor, dt, sta, lta, lo, hi)
    if key not in _CLS:
        vs = variants(w, comp, factor, dt, sta, lta)
        _CLS[key] = (RS.classify(vs, lo, hi), RS.knife_edge(vs, lo, hi))
    return _CLS[key]


_WMAX = {}


def window_maxima(w, factor):
    key = (w, factor)
    if key not in _WMAX:
        a = scaled_arrays(w, MAX_DT, factor)
        _WMAX[key] = RM.component_maxima({c: a[c].tolist() for c in ALL})
    return _WMAX[key]


# ---------------------------------------------------------------------------
# helpers

def selection(recs, out):
    """Keep-vector if ``out`` is a sub-list of ``recs`` (same objects, same order), else None."""
    if not isinstance(out, list):
        return None
    kept = [False] * len(recs)
    cur = 0
    for o in out:
        while cur < len(recs) and recs[cur] is not o:
            cur += 1
        if cur == len(recs):
            return None
        kept[cur] = True
        cur += 1
    return kept


def check_masks(ctx, root, fn, h, kind, kept, detail, pending=None):
    """``pending`` (family curves): a list that receives the mask violations instead of ``ctx``; the family reports
    them at the end of its root, when it can tell whether the curves without a peak explain them."""
    if h is None:
        return
    trads = [h] if kind.startswith("trad") else list(h.hvsrs)
    tag = "trad" if kind.startswith("trad") else "azi"
    equal = True
    for ai, t in enumerate(trads):
        for short, name in (("window", "valid_window_boolean_mask"), ("peak", "valid_peak_boolean_mask")):
            m = np.asarray(getattr(t, name))
            ctx.count("mask_comparisons")
            if m.dtype != bool or m.shape != (len(kept),) or m.tolist() != kept:
                equal = False
                v = dict(key=f"C13:{fn}:mask:{tag}:{short}-mask", root=root,
                         detail=dict(detail, azimuth_index=ai, mask=name),
                         expected=kept, observed=m.tolist(),
                         explanation=f"{name} of the attached {tag} object (azimuth index {ai}) "
                                     f"differs from the returned selection")
                if pending is not None:
                    pending.append((short, v))
                else:
                    ctx.violation(v.pop("key"), v.pop("root"), **v)


    # the masks of the azimuths are separate states: a later manual rejection on ONE azimuth (an in-place
    # edit, the way update_peaks_bounded and the frequency-domain rejection write their decisions) leaves the
    # selection on every other azimuth as the call left it (asked only where every mask equals the selection)
    if equal and tag == "azi" and len(trads) > 1 and any(kept):
        i = kept.index(True)
        for name in ("valid_window_boolean_mask", "valid_peak_boolean_mask"):
            m0 = getattr(trads[0], name)
            if not (isinstance(m0, np.ndarray) and m0.shape == (len(kept),)):
                continue
            m0[i] = False
            ctx.count("mask_independence_checks")
            for ai, t in enumerate(trads[1:], start=1):
                if np.asarray(getattr(t, name)).tolist() != kept:
                    ctx.violation(f"C13:{fn}:mask:azi:shared-between-azimuths", root,
                                  detail=dict(detail, azimuth_index=ai, mask=name, edited_azimuth_index=0,
                                              edited_window=i),
                                  expected=kept, observed=np.asarray(getattr(t, name)).tolist(),
                                  explanation=f"rejecting window {i} by hand on azimuth index 0 after the call "
                                              f"changed {name} of azimuth index {ai}")
                    break
            m0[i] = True


def bits(kept):
    return "".join("1" if k else "0" for k in kept)


# ---------------------------------------------------------------------------
# STA/LTA

_SINGLE = {}


def single_stalta(ctx, root, w, comps, dt, sta, lta, lo, hi, factor):
    """Decision of the real code for the one-window list [w] (memoised within a root)."""
    key = (w, comps, dt, sta, lta, lo, hi, factor)
    if key in _SINGLE:
        return _SINGLE[key]
    recs = make_records([w], dt, factor)
    try:
        out = sta_lta_window_rejection(recs, sta_seconds=sta, lta_seconds=lta,
                                       min_sta_lta_ratio=lo, max_sta_lta_ratio=hi,
                                       components=comps, hvsr=None)
        ctx.count("transitions")
        ctx.count("single_window_calls")
        k = selection(recs, out)
        res = None if k is None else k[0]
    except Exception as e:      # noqa: BLE001 - judged where the list call is judged
        res = "raised:" + type(e).__name__
    _SINGLE[key] = res
    if len(comps) > 1 and isinstance(res, bool):
        parts = [single_stalta(ctx, root, w, (c,), dt, sta, lta, lo, hi, factor) for c in comps]
        if all(isinstance(p, bool) for p in parts):
            ctx.count("conjunction_comparisons")
            if res != all(parts):
                ctx.violation("C13:sta_lta:component-conjunction", root,
                              detail=dict(window=w, components=comps, dt=dt, sta_seconds=sta,
                                          lta_seconds=lta, min_ratio=lo, max_ratio=hi, factor=factor,
                                          signals="hvmc.checks.c13.window_arrays(window, dt) * factor"),
                              expected=dict(zip(comps, parts)), observed=res,
                              explanation="decision for a component tuple is not the conjunction of the "
                                          "decisions for each component alone")
    return res


def stalta_case(ctx, root, ws, case):
    dt, comps, sta, kind = case["dt"], case["comps"], case["sta"], case["hvsr"]
    n = NSAMPLES[dt]
    lta = n * dt if case["lta"] == "window" else case["lta"]
    table = {}
    patterns = set()
    for factor in FACTORS:
        h = make_hvsr(kind, len(ws))        # one object per factor; masks are renewed before every call
        for lo, hi in LIMITS:
            detail = dict(fn="sta_lta_window_rejection", windows=ws, dt=dt, n_samples=n,
                          components=comps, sta_seconds=sta, lta_seconds=lta, min_ratio=lo,
                          max_ratio=hi, factor=factor, hvsr=kind,
                          signals="hvmc.checks.c13.window_arrays(name, dt)[component] * factor")
            recs = make_records(ws, dt, factor)
            reset_masks(h, kind, len(ws))
            ctx.count("states")
            try:
                out = sta_lta_window_rejection(recs, sta_seconds=sta, lta_seconds=lta,
                                               min_sta_lta_ratio=lo, max_sta_lta_ratio=hi,
                                               components=comps, hvsr=h)
            except Exception as e:      # noqa: BLE001
                ctx.count("transitions")
                ctx.violation("C13:sta_lta:call:raises", root, detail=detail,
                              observed=f"{type(e).__name__}: {e}",
                              explanation="sta_lta_window_rejection raised inside its domain")
                continue
            ctx.count("transitions")
            kept = selection(recs, out)
            if kept is None:
                ctx.violation("C13:sta_lta:returned-list:identity-order", root, detail=detail,
                              observed=repr(out)[:300],
                              explanation="the returned value is not a sub-list of the given windows "
                                          "(same objects, original order)")
                continue
            table[(factor, lo, hi)] = kept
            patterns.add(tuple(kept))
            ctx.outcome(f"s|{'.'.join(ws)}|{bits(kept)}")
            # ---- reference, clear windows only
            compared = False
            for i, w in enumerate(ws):
                classes = [comp_class(w, c, factor, dt, sta, lta, lo, hi)[0] for c in comps]
                exp = RS.window_verdict(classes)
                if exp is None:
                    ctx.count("unclear_window_decisions")
                    continue
                compared = True
                ctx.count("clear_kept" if exp else "clear_rejected")
                # vacuity statistic: a model that examines the first component only
                first = RS.window_verdict(classes[:1])
                if first is not None and first != exp:
                    ctx.count("alt_first_component_only_differs")
                if exp != kept[i]:
                    which = "clear-inside:rejected" if exp else "clear-outside:kept"
                    ctx.violation(f"C13:sta_lta:{which}", root,
                                  detail=dict(detail, window_index=i, window=w,
                                              readings={c: variants(w, c, factor, dt, sta, lta)
                                                        for c in comps},
                                              classes=dict(zip(comps, classes))),
                                  expected=exp, observed=kept[i],
                                  explanation="a window whose STA/LTA ratios are clearly inside the limits "
                                              "on every examined component was rejected" if exp else
                                              "a window with an STA/LTA ratio clearly outside the limits on "
                                              "an examined component was kept")
                    break
            if compared:
                ctx.count("validated")
            check_masks(ctx, root, "sta_lta", h, kind, kept, detail)
            # ---- depends on that window only (and: conjunction, inside single_stalta)
            for i, w in enumerate(ws):
                s = single_stalta(ctx, root, w, comps, dt, sta, lta, lo, hi, factor)
                ctx.count("list_independence_comparisons")
                if s != kept[i]:
                    ctx.violation("C13:sta_lta:list-dependence", root,
                                  detail=dict(detail, window_index=i, window=w),
                                  expected=s, observed=kept[i],
                                  explanation="the decision for a window inside this list differs from the "
                                              "decision for the list holding only that window")
                    break
    if len(patterns) > 1:
        ctx.nontrivial_case(f"s|{'.'.join(ws)}|{comps}|{dt}|{sta}|{lta}")
    base = dict(fn="sta_lta_window_rejection", windows=ws, dt=dt, components=comps, sta_seconds=sta,
                lta_seconds=lta, hvsr=kind, signals="hvmc.checks.c13.window_arrays(name, dt)[component] * factor")
    # ---- common rescaling
    for lo, hi in LIMITS:
        k1 = table.get((1.0, lo, hi))
        for f in FACTORS[1:]:
            kf = table.get((f, lo, hi))
            if k1 is None or kf is None:
                continue
            for i, w in enumerate(ws):
                if any(comp_class(w, c, g, dt, sta, lta, lo, hi)[1] for c in comps for g in (1.0, f)):
                    ctx.count("knife_edge")
                    continue
                ctx.count("rescaling_comparisons")
                if k1[i] != kf[i]:
                    ctx.violation("C13:sta_lta:rescaling", root,
                                  detail=dict(base, min_ratio=lo, max_ratio=hi, factors=[1.0, f],
                                              window_index=i, window=w),
                                  expected=k1[i], observed=kf[i],
                                  explanation="the decision changed under a common positive amplitude factor")
                    break
    # ---- widening the limits can only turn reject into keep
    for f in FACTORS:
        for narrow, wide in WIDENINGS:
            kn, kw = table.get((f,) + narrow), table.get((f,) + wide)
            if kn is None or kw is None:
                continue
            ctx.count("widening_comparisons")
            bad = [i for i in range(len(ws)) if kn[i] and not kw[i]]
            if bad:
                ctx.violation("C13:sta_lta:widening-limits", root,
                              detail=dict(base, factor=f, narrow_limits=narrow, wide_limits=wide,
                                          window_index=bad[0], window=ws[bad[0]]),
                              expected=kn, observed=kw,
                              explanation="a window kept with narrower limits is rejected with wider limits")


# ---------------------------------------------------------------------------
# STA/LTA, equal sample count at different time steps inside one process
#
# Inside one root windows of n samples at dt1 are screened and then windows of
# the SAME n samples at dt2 != dt1 (... dt3) with the same sta_seconds /
# lta_seconds (mode 'successive': one call per time step, again and again over
# the whole grid of components x limits; mode 'mixed': one list holding the
# windows of all time steps).  Every call is judged by ref.stalta with the
# time step of the window itself.  The envelopes are chosen so that the chunk
# layout of the other time step gives another verdict (counted:
# ``alt_other_time_step_layout_differs``).

SAME_N_SETS = {
    "quick": [
        dict(n=401, burst=40, dts=[0.01, 0.02], sta_lta=[(1, 4), (0.5, 2), (1, 2)]),
        dict(n=3840, burst=64, dts=[1 / 128, 1 / 64], sta_lta=[(1, 30)]),
    ],
    "thorough": [
        dict(n=401, burst=40, dts=[0.01, 0.02], sta_lta=[(1, 4), (0.5, 2), (1, 2), (0.5, 4), (0.1, 1), (2, 4)]),
        dict(n=3840, burst=64, dts=[1 / 128, 1 / 64], sta_lta=[(1, 30), (2, 30), (1, 15), (0.5, 10)]),
        dict(n=801, burst=40, dts=[0.005, 0.01, 0.02], sta_lta=[(1, 4), (0.5, 2), (0.1, 1)]),
        dict(n=1200, burst=50, dts=[0.01, 0.025], sta_lta=[(1, 12), (2, 10)]),
    ],
}
SAME_N_MODES = ["successive", "mixed"]
# window name -> envelope on (ns, ew, vt)
SAME_N_WINDOWS = {
    "S": ("flat", "flat", "flat"),
    "Be": ("burst_e6", "flat", "flat"),         # short burst x6 early on ns
    "U": ("flat", "step_up", "flat"),           # amplitude 1 -> 4 at mid-window on ew
    "Bl": ("flat", "flat", "burst_l3"),         # short burst x3 late on vt
    "Dn": ("step_dn", "flat", "flat"),          # amplitude 4 -> 1 at mid-window on ns
    "Bm": ("flat", "burst_m3", "flat"),         # short burst x3 before mid-window on ew
    "Ue": ("flat", "flat", "step_e"),           # amplitude 1 -> 3 after the first tenth of the window on vt
}
SAME_N_LIST = list(SAME_N_WINDOWS)
SAME_N_COMPS = [("ns", "ew", "vt"), ("ns",), ("ew",), ("vt",)]
SAME_N_LIMITS = [(lo, hi) for lo in (0.2, 0.1, 0.3, 0.5) for hi in (2.5, 1.25, 1.5, 2.0, 3.0, 4.0, 6.0, 8.0)]


def envelope_n(name, n, burst):
    if name == "flat":
        return [1.0] * n
    if name.startswith("burst_"):
        at = {"e": 0.28, "m": 0.40, "l": 0.70}[name[6]]
        amp = float(name[7:])
        lo = int(at * n)
        return [amp if lo <= i < lo + burst else 1.0 for i in range(n)]
    if name == "step_up":
        return [1.0 if i < n // 2 else 4.0 for i in range(n)]
    if name == "step_dn":
        return [4.0 if i < n // 2 else 1.0 for i in range(n)]
    if name == "step_e":
        return [1.0 if i < n // 10 else 3.0 for i in range(n)]
    raise KeyError(name)


_ARR_N = {}


def same_n_arrays(name, n, burst):
    """dict component -> ndarray; the samples do not depend on the time step."""
    key = (name, n, burst)
    if key not in _ARR_N:
        _ARR_N[key] = {c: np.array([e * v for e, v in zip(envelope_n(en, n, burst), carrier(c, n))])
                       for c, en in zip(ALL, SAME_N_WINDOWS[name])}
    return _ARR_N[key]


_VAR_N = {}


def same_n_variants(w, comp, n, burst, dt, sta, lta):
    key = (w, comp, n, burst, dt, sta, lta)
    if key not in _VAR_N:
        vs = RS.ratio_variants(same_n_arrays(w, n, burst)[comp].tolist(), dt, sta, lta)
        _VAR_N[key] = [dict(chunk=v["chunk"], lta_len=v["lta_len"], lta_from=v["lta_from"],
                            ratios=[min(v["ratios"]), max(v["ratios"])]) for v in vs]
    return _VAR_N[key]


def same_n_verdict(w, comps, n, burst, dt, sta, lta, lo, hi):
    classes = [RS.classify(same_n_variants(w, c, n, burst, dt, sta, lta), lo, hi) for c in comps]
    return RS.window_verdict(classes), classes


def same_n_root(ctx, root):
    n, burst, dts, sta, lta, mode = root["n"], root["burst"], root["dts"], root["sta"], root["lta"], root["mode"]
    if mode == "successive":
        calls = [[(w, dt) for w in SAME_N_LIST] for dt in dts]
    else:
        calls = [[(w, dt) for w in SAME_N_LIST for dt in dts], [(w, dt) for dt in dts for w in SAME_N_LIST]]
    discriminating = 0
    log, pending = [], []       # every judged call; the calls with a decision that contradicts the reference
    for comps in SAME_N_COMPS:
        patterns = set()
        for lo, hi in SAME_N_LIMITS:
            for items in calls:
                detail = dict(fn="sta_lta_window_rejection", family="same sample count, different time steps",
                              mode=mode, n_samples=n, time_steps_in_this_root_in_order=dts,
                              windows=[[w, dt] for w, dt in items], components=comps, sta_seconds=sta,
                              lta_seconds=lta, min_ratio=lo, max_ratio=hi, hvsr="none",
                              signals=f"hvmc.checks.c13.same_n_arrays(name, {n}, {burst})[component], TimeSeries(., dt)",
                              how="hvmc.checks.c13.same_n_root replays the whole root: the calls of all components "
                                  "x limits x time steps are made in one process, in this order")
                recs = []
                for w, dt in items:
                    a = same_n_arrays(w, n, burst)
                    recs.append(SeismicRecording3C(TimeSeries(a["ns"], dt), TimeSeries(a["ew"], dt),
                                                   TimeSeries(a["vt"], dt)))
                ctx.count("states")
                ctx.count("same_n_calls")
                try:
                    out = sta_lta_window_rejection(recs, sta_seconds=sta, lta_seconds=lta, min_sta_lta_ratio=lo,
                                                   max_sta_lta_ratio=hi, components=comps, hvsr=None)
                except Exception as e:      # noqa: BLE001
                    ctx.count("transitions")
                    ctx.violation("C13:sta_lta:call:raises", root, detail=detail,
                                  observed=f"{type(e).__name__}: {e}",
                                  explanation="sta_lta_window_rejection raised inside its domain")
                    continue
                ctx.count("transitions")
                kept = selection(recs, out)
                if kept is None:
                    ctx.violation("C13:sta_lta:returned-list:identity-order", root, detail=detail,
                                  observed=repr(out)[:300],
                                  explanation="the returned value is not a sub-list of the given windows "
                                              "(same objects, original order)")
                    continue
                patterns.add(tuple(kept))
                ctx.outcome(f"n|{n}|{sta}|{lta}|{'.'.join(f'{w}@{dt}' for w, dt in items)}|{bits(kept)}")
                exps = []
                for w, dt in items:
                    exp, classes = same_n_verdict(w, comps, n, burst, dt, sta, lta, lo, hi)
                    exps.append((exp, classes))
                    if exp is None:
                        ctx.count("unclear_window_decisions")
                        continue
                    ctx.count("clear_kept" if exp else "clear_rejected")
                    ctx.count("same_n_clear_kept" if exp else "same_n_clear_rejected")
                    # vacuity statistic: the chunk layout of another time step of this root decides otherwise
                    for other in dts:
                        if other != dt:
                            alt = same_n_verdict(w, comps, n, burst, other, sta, lta, lo, hi)[0]
                            if alt is not None and alt != exp:
                                ctx.count("alt_other_time_step_layout_differs")
                                discriminating += 1
                                break
                if any(e is not None for e, _ in exps):
                    ctx.count("validated")
                log.append((items, kept, comps, lo, hi))
                bad = [i for i, (e, _) in enumerate(exps) if e is not None and e != kept[i]]
                if bad:
                    pending.append(dict(i=bad[0], items=items, kept=kept, exps=exps, comps=comps, lo=lo, hi=hi,
                                        detail=detail))
        if len(patterns) > 1:
            ctx.nontrivial_case(f"n|{n}|{dts}|{sta}|{lta}|{mode}|{comps}")
    if not discriminating:
        ctx.count("same_n_roots_without_discriminating_decision")
    # ---- report.  Diagnosis for the key: is there ONE time step of this root whose sample counts, used for
    # every window of every call of the root, explain every clear decision that was observed?  Then the
    # windows were chunked with a layout remembered from that time step; otherwise the defect is of
    # another kind and gets the keys of the main family.
    stale = None
    if pending:
        for other in dts:
            def under(w, comps, lo, hi, other=other):
                return same_n_verdict(w, comps, n, burst, other, sta, lta, lo, hi)[0]
            if any(under(p["items"][p["i"]][0], p["comps"], p["lo"], p["hi"]) == p["kept"][p["i"]]
                   for p in pending) and \
                    all(under(w, comps, lo, hi) in (None, k)
                        for items, kept, comps, lo, hi in log for (w, _), k in zip(items, kept)):
                stale = other
                break
    for p in pending:
        i, items, kept, exps, comps = p["i"], p["items"], p["kept"], p["exps"], p["comps"]
        w, dt = items[i]
        exp, classes = exps[i]
        which = "clear-inside:rejected" if exp else "clear-outside:kept"
        key = f"C13:sta_lta:{which}" if stale is None else f"C13:sta_lta:same-sample-count-other-time-step:{which}"
        text = ("a window whose STA/LTA ratios are clearly inside the limits on every examined component "
                "was rejected" if exp else
                "a window with an STA/LTA ratio clearly outside the limits on an examined component was kept")
        if stale is not None:
            text += (f"; every clear decision of every call of this root is the one obtained with the sample "
                     f"counts of time step {stale} (screened in the same process with the same sta/lta seconds "
                     f"and the same number of samples per window), not with the window's own time step")
        ctx.violation(key, root,
                      detail=dict(p["detail"], window_index=i, window=w, time_step=dt,
                                  readings={c: same_n_variants(w, c, n, burst, dt, sta, lta) for c in comps},
                                  classes=dict(zip(comps, classes)),
                                  all_decisions_of_the_root_explained_by_layout_of_time_step=stale),
                      expected=[e for e, _ in exps], observed=kept, explanation=text)
    if len(ctx.samples) < 3:
        ctx.sample(dict(fn="sta_lta_window_rejection", family="same sample count, different time steps",
                        root=root, windows=SAME_N_WINDOWS, components=SAME_N_COMPS,
                        limits=f"{len(SAME_N_LIMITS)} (min, max) pairs"))


def same_n_roots(tier):
    out = []
    for s in SAME_N_SETS[tier]:
        for sta, lta in s["sta_lta"]:
            for order in itertools.permutations(s["dts"]):
                for mode in SAME_N_MODES:
                    out.append(dict(fn="sta_lta_same_n", n=s["n"], burst=s["burst"], dts=list(order),
                                    sta=sta, lta=lta, mode=mode))
    return out


# ---------------------------------------------------------------------------
# STA/LTA, windows of DIFFERENT length (same time step) inside one list
#
# Every quantity the criterion needs (number of whole chunks, LTA prefix) is a property of the window it is
# computed for.  Lists over {3 s, 4 s, 7 s} x {stationary, spike in the first second, spike in the last
# second} are screened; every decision is compared with the reference for that window (clear windows) and
# with the decision for the list holding that window only.

UNEQ_DT = 0.01
UNEQ_LENGTHS = {"3": 300, "4": 400, "7": 700}
UNEQ_CONTENT = {"S": ("flat", "flat", "flat"), "Te": ("tail_e", "flat", "flat"), "Tl": ("flat", "flat", "tail_l")}
UNEQ_ALPHA = [f"{c}{l}" for l in UNEQ_LENGTHS for c in UNEQ_CONTENT]
UNEQ_STA_LTA = [(1, 2), (0.5, 3), (1, 3)]
UNEQ_LIMITS = [(0.2, 2.5), (0.5, 1.5), (0.2, 8.0), (0.0, 50.0)]
UNEQ_COMPS = [("ns", "ew", "vt"), ("ns",), ("vt",)]
_ARR_U = {}
_VAR_U = {}


def uneq_arrays(name):
    if name not in _ARR_U:
        content, n = name[:-1], UNEQ_LENGTHS[name[-1]]

        def env(en):
            if en == "flat":
                return [1.0] * n
            if en == "tail_e":      # x8 between 0.2 s and 0.8 s
                return [8.0 if 20 <= i < 80 else 1.0 for i in range(n)]
            return [8.0 if n - 80 <= i < n - 20 else 1.0 for i in range(n)]     # x8 in the last second
        _ARR_U[name] = {c: np.array([e * v for e, v in zip(env(en), carrier(c, n))])
                        for c, en in zip(ALL, UNEQ_CONTENT[content])}
    return _ARR_U[name]


def uneq_verdict(w, comps, sta, lta, lo, hi):
    classes = []
    for c in comps:
        key = (w, c, sta, lta)
        if key not in _VAR_U:
            vs = RS.ratio_variants(uneq_arrays(w)[c].tolist(), UNEQ_DT, sta, lta)
            _VAR_U[key] = [dict(chunk=v["chunk"], lta_len=v["lta_len"], lta_from=v["lta_from"],
                                ratios=[min(v["ratios"]), max(v["ratios"])]) for v in vs]
        classes.append(RS.classify(_VAR_U[key], lo, hi))
    return RS.window_verdict(classes), classes


def uneq_records(ws):
    recs = []
    for w in ws:
        a = uneq_arrays(w)
        recs.append(SeismicRecording3C(TimeSeries(a["ns"], UNEQ_DT), TimeSeries(a["ew"], UNEQ_DT),
                                       TimeSeries(a["vt"], UNEQ_DT)))
    return recs


def uneq_root(ctx, root):
    single = {}
    for ws in root["lists"]:
        patterns = set()
        for (sta, lta), comps, (lo, hi) in itertools.product(UNEQ_STA_LTA, UNEQ_COMPS, UNEQ_LIMITS):
            detail = dict(fn="sta_lta_window_rejection", family="windows of different length in one list",
                          windows=ws, n_samples=[UNEQ_LENGTHS[w[-1]] for w in ws], dt=UNEQ_DT, components=comps,
                          sta_seconds=sta, lta_seconds=lta, min_ratio=lo, max_ratio=hi, hvsr="none",
                          signals="hvmc.checks.c13.uneq_arrays(name)[component]")
            calls = [("list", ws)] + [("single", [w]) for w in ws if (w, sta, lta, comps, lo, hi) not in single]
            kept_list = None
            for what, items in calls:
                recs = uneq_records(items)
                ctx.count("states")
                try:
                    out = sta_lta_window_rejection(recs, sta_seconds=sta, lta_seconds=lta, min_sta_lta_ratio=lo,
                                                   max_sta_lta_ratio=hi, components=comps, hvsr=None)
                except Exception as e:      # noqa: BLE001
                    ctx.count("transitions")
                    ctx.violation("C13:sta_lta:call:raises", root, detail=dict(detail, windows=items),
                                  observed=f"{type(e).__name__}: {e}",
                                  explanation="sta_lta_window_rejection raised inside its domain")
                    if what == "single":
                        single[(items[0], sta, lta, comps, lo, hi)] = None
                    continue
                ctx.count("transitions")
                kept = selection(recs, out)
                if kept is None:
                    ctx.violation("C13:sta_lta:returned-list:identity-order", root, detail=dict(detail, windows=items),
                                  observed=repr(out)[:300],
                                  explanation="the returned value is not a sub-list of the given windows")
                    continue
                if what == "list":
                    kept_list = kept
                else:
                    single[(items[0], sta, lta, comps, lo, hi)] = kept[0]
            if kept_list is None:
                continue
            patterns.add(tuple(kept_list))
            ctx.outcome(f"u|{'.'.join(ws)}|{bits(kept_list)}")
            compared = False
            for i, w in enumerate(ws):
                exp, classes = uneq_verdict(w, comps, sta, lta, lo, hi)
                if exp is None:
                    ctx.count("unclear_window_decisions")
                else:
                    compared = True
                    ctx.count("clear_kept" if exp else "clear_rejected")
                    ctx.count("uneq_clear_kept" if exp else "uneq_clear_rejected")
                    if exp != kept_list[i]:
                        which = "clear-inside:rejected" if exp else "clear-outside:kept"
                        ctx.violation(f"C13:sta_lta:unequal-lengths:{which}", root,
                                      detail=dict(detail, window_index=i, window=w, classes=dict(zip(comps, classes))),
                                      expected=exp, observed=kept_list[i],
                                      explanation="in a list of windows of different length a window clearly "
                                                  + ("inside the limits was rejected" if exp else
                                                     "outside the limits was kept"))
                s1 = single.get((w, sta, lta, comps, lo, hi))
                if s1 is not None:
                    ctx.count("list_independence_comparisons")
                    ctx.count("uneq_list_independence_comparisons")
                    if s1 != kept_list[i]:
                        ctx.violation("C13:sta_lta:unequal-lengths:list-dependence", root,
                                      detail=dict(detail, window_index=i, window=w), expected=s1, observed=kept_list[i],
                                      explanation="the decision for a window inside a list of windows of different "
                                                  "length differs from the decision for that window alone")
            if compared:
                ctx.count("validated")
        if len(patterns) > 1:
            ctx.nontrivial_case(f"u|{'.'.join(ws)}")
    if len(ctx.samples) < 4:
        ctx.sample(dict(fn="sta_lta_window_rejection", family="windows of different length in one list",
                        lists=root["lists"][:3], sta_lta=UNEQ_STA_LTA, limits=UNEQ_LIMITS, components=UNEQ_COMPS))


def uneq_roots(tier):
    l2 = [list(t) for t in itertools.product(UNEQ_ALPHA, repeat=2)]
    lists = l2 if tier == "quick" else l2 + [list(t) for t in itertools.product(UNEQ_ALPHA, repeat=3)]
    return [dict(fn="sta_lta_unequal", lists=g) for g in _groups(lists, 9 if tier == "quick" else 27)]


# ---------------------------------------------------------------------------
# histories of calls on ONE attached HVSR object, refused calls included
#
# The masks of the attached object record the selection of the call that returned one.  A call that is refused
# (STA or LTA longer than a window -> IndexError, a component that does not exist -> AttributeError) returns no
# selection, so the object must show what it showed before that call: the selection of an earlier call, or
# masks set by another operation.  Every history of at most ``depth`` calls over the operation alphabet below
# is executed on a new object; the LAST call of the history is judged (every prefix is a history of its own):
# * it returned: both masks of every azimuth == the returned selection (``check_masks``);
# * it was refused: both masks of every azimuth == the masks before the call (values, bool, shape).
# The refusals come in two shapes: every window too short (refused at the first window) and a list of unequal
# lengths in which the window at position p is too short (refused after p windows have been examined).

HIST_DT = UNEQ_DT
HIST_N = 3
HIST_LISTS = {
    "eq": ["S4", "Te4", "Tl4"],             # 4 s windows; burst on ns / on vt
    "uneq": ["Te3", "S7", "S4"],
    "short0": ["S3", "Te7", "S7"],          # the 3 s window is shorter than 5 s, the 7 s windows are not
    "short1": ["Te7", "S3", "S7"],
    "short2": ["Te7", "S7", "S3"],
}
_NARROW, _DEFAULT, _WIDE = (0.5, 1.5), (0.2, 2.5), (0.0, 50.0)
HIST_OPS = {
    # inside the domain
    "v_narrow": dict(fn="sta_lta", list="eq", sta=1, lta=2, limits=_NARROW),
    "v_default": dict(fn="sta_lta", list="eq", sta=1, lta=2, limits=_DEFAULT),
    "v_wide": dict(fn="sta_lta", list="eq", sta=1, lta=2, limits=_WIDE),
    "v_uneq": dict(fn="sta_lta", list="uneq", sta=1, lta=3, limits=_NARROW),
    "v_max": dict(fn="maximum_value", list="eq", normalized=True, threshold=0.9),
    # STA / LTA longer than every window
    "r_sta_all": dict(fn="sta_lta", list="eq", sta=5, lta=2, limits=_NARROW, too_short=[0, 1, 2]),
    "r_lta_all": dict(fn="sta_lta", list="eq", sta=1, lta=5, limits=_NARROW, too_short=[0, 1, 2]),
    # a component that does not exist (after existing ones)
    "r_comp_sta": dict(fn="sta_lta", list="eq", sta=1, lta=2, limits=_NARROW, extra_component="up"),
    "r_comp_max": dict(fn="maximum_value", list="eq", normalized=True, threshold=0.9, extra_component="up"),
}
for _p in range(HIST_N):    # STA / LTA longer than the window at position p only
    HIST_OPS[f"r_lta_short{_p}"] = dict(fn="sta_lta", list=f"short{_p}", sta=1, lta=5, limits=_NARROW, too_short=[_p])
    HIST_OPS[f"r_sta_short{_p}"] = dict(fn="sta_lta", list=f"short{_p}", sta=5, lta=2, limits=_NARROW, too_short=[_p])
HIST_OP_NAMES = list(HIST_OPS)
HIST_KINDS = ["trad", "azi", "trad_pre", "azi_pre"]
# tier -> [(components, depth)]
HIST_COMPS = {"quick": [(("ns", "ew", "vt"), 3), (("vt", "ns"), 2)],
              "thorough": [(("ns", "ew", "vt"), 4), (("vt", "ns"), 3), (("ns",), 3), (("vt",), 3)]}


def hist_call(op, comps, h):
    """Execute one operation on fresh recordings; (recordings, returned list or None, exception or None)."""
    recs = uneq_records(HIST_LISTS[op["list"]])
    cs = tuple(comps) + ((op["extra_component"],) if "extra_component" in op else ())
    try:
        if op["fn"] == "sta_lta":
            out = sta_lta_window_rejection(recs, sta_seconds=op["sta"], lta_seconds=op["lta"],
                                           min_sta_lta_ratio=op["limits"][0], max_sta_lta_ratio=op["limits"][1],
                                           components=cs, hvsr=h)
        else:
            out = maximum_value_window_rejection(recs, maximum_value_threshold=op["threshold"],
                                                 normalized=op["normalized"], components=cs, hvsr=h)
    except Exception as e:      # noqa: BLE001 - judged by the caller
        return recs, None, e
    return recs, out, None


def mask_snapshot(h, kind):
    return [[np.array(getattr(t, name), copy=True) for name in ("valid_window_boolean_mask", "valid_peak_boolean_mask")]
            for t in ([h] if kind.startswith("trad") else list(h.hvsrs))]


_HIST_EARLIER = {}


def hist_earlier_rejected(op, comps):
    """Does the real code reject (alone, no object attached) a window that stands before the first too-short one?"""
    key = (op["list"], op.get("sta"), op.get("lta"), comps)
    if key not in _HIST_EARLIER:
        res = False
        for w in HIST_LISTS[op["list"]][:min(op["too_short"])]:
            recs = uneq_records([w])
            try:
                out = sta_lta_window_rejection(recs, sta_seconds=op["sta"], lta_seconds=op["lta"],
                                               min_sta_lta_ratio=op["limits"][0], max_sta_lta_ratio=op["limits"][1],
                                               components=comps, hvsr=None)
                res = res or len(out) == 0
            except Exception:       # noqa: BLE001
                pass
        _HIST_EARLIER[key] = res
    return _HIST_EARLIER[key]


def hist_root(ctx, root):
    kind, comps, depth, prefix = root["hvsr"], tuple(root["comps"]), root["depth"], root["prefix"]
    tag = "trad" if kind.startswith("trad") else "azi"
    # histories that are just the prefix belong to the root with the empty prefix
    seqs = [list(prefix) + list(t) for d in range(1, depth - len(prefix) + 1)
            for t in itertools.product(HIST_OP_NAMES, repeat=d)]
    for seq in seqs:
        h = make_hvsr(kind, HIST_N)
        ctx.count("states")
        ctx.count("histories")
        before = recs = out = err = None
        for name in seq:
            before = mask_snapshot(h, kind)
            recs, out, err = hist_call(HIST_OPS[name], comps, h)
            ctx.count("transitions")
        op = HIST_OPS[seq[-1]]
        fn = op["fn"]
        detail = dict(family="history of calls on one attached object; the last call is judged",
                      hvsr=kind, initial_masks="hvmc.checks.c13.make_hvsr(hvsr, 3)", components=comps,
                      history=[dict(HIST_OPS[s], name=s, windows=HIST_LISTS[HIST_OPS[s]["list"]]) for s in seq],
                      dt=HIST_DT, signals="hvmc.checks.c13.uneq_arrays(name)[component]; "
                                          "components + (extra_component,) where given")
        in_domain = "too_short" not in op and "extra_component" not in op
        if err is not None:
            if in_domain:
                ctx.violation(f"C13:{fn}:call:raises", root, detail=detail, observed=f"{type(err).__name__}: {err}",
                              explanation=f"{fn} rejection raised inside its domain")
                continue
            ctx.count("refused_calls_judged")
            ctx.outcome(f"h|{seq[-1]}|{kind}|refused|" + "/".join(bits(m.tolist()) for t in before for m in t))
            if any(not m.all() for t in before for m in t):
                ctx.count("refused_with_earlier_rejections_on_the_object")
                ctx.nontrivial_case(f"h|{kind}|{comps}|{'.'.join(seq)}")
            if len(seq) > 1 and "too_short" not in HIST_OPS[seq[-2]] and "extra_component" not in HIST_OPS[seq[-2]]:
                ctx.count("refused_after_a_call_that_returned")
            if "too_short" in op and min(op["too_short"]) > 0:
                ctx.count("refused_after_examining_windows")
                if hist_earlier_rejected(op, comps):
                    ctx.count("refused_after_examining_a_window_that_fails")
            trads = [h] if tag == "trad" else list(h.hvsrs)
            for ai, (t, snap) in enumerate(zip(trads, before)):
                for (short, mname), m0 in zip((("window", "valid_window_boolean_mask"),
                                               ("peak", "valid_peak_boolean_mask")), snap):
                    m = np.asarray(getattr(t, mname))
                    ctx.count("refused_mask_comparisons")
                    if m.dtype != bool or m.shape != m0.shape or m.tolist() != m0.tolist():
                        ctx.violation(f"C13:{fn}:refused-call:mask:{tag}:{short}-mask-changed", root,
                                      detail=dict(detail, azimuth_index=ai, mask=mname,
                                                  refusal=f"{type(err).__name__}: {err}"),
                                      expected=m0.tolist(), observed=m.tolist(),
                                      explanation=f"the last call of the history was refused and returned no "
                                                  f"selection, yet {mname} of the attached {tag} object (azimuth "
                                                  f"index {ai}) is not what it was before that call")
            ctx.count("validated")
            continue
        if not in_domain:
            ctx.count("outside_domain_call_not_refused")
        kept = selection(recs, out)
        if kept is None:
            ctx.violation(f"C13:{fn}:returned-list:identity-order", root, detail=detail, observed=repr(out)[:300],
                          explanation="the returned value is not a sub-list of the given windows")
            continue
        ctx.outcome(f"h|{seq[-1]}|{kind}|{bits(kept)}")
        ctx.count("history_returned_calls_judged")
        if len(seq) > 1 and ("too_short" in HIST_OPS[seq[-2]] or "extra_component" in HIST_OPS[seq[-2]]):
            ctx.count("returned_after_a_refused_call")
        check_masks(ctx, root, fn, h, kind, kept, detail)
        ctx.count("validated")
    if len(ctx.samples) < 5:
        ctx.sample(dict(family="history of calls on one attached object", root=root, operations=HIST_OPS,
                        lists=HIST_LISTS))


def hist_roots(tier):
    out = []
    for kind in HIST_KINDS:
        for comps, depth in HIST_COMPS[tier]:
            prefixes = [[]] if depth <= 3 else [[]] + [[o] for o in HIST_OP_NAMES]
            for p in prefixes:
                # the root with the empty prefix of a split tier holds the histories of length 1 only
                d = depth if (p or len(prefixes) == 1) else 1
                out.append(dict(fn="history", hvsr=kind, comps=list(comps), depth=d, prefix=p))
    return out


# ---------------------------------------------------------------------------
# what the attached object HOLDS: curves with and without a peak, masks as hvsrpy itself left them
#
# "an HVSR object passed along" is any result object.  The objects of the families above hold curves that all have
# a peak, and their masks are always renewed by the harness.  Here every assignment of curve shapes - single peak,
# rising, falling, flat, maximum on the first sample, flat-topped peak, a peak that a bounded search range cuts off -
# to the 3 windows of the object is attached (the second azimuth holds another assignment, so the curves without a
# peak stand at different windows on the two azimuths), with the peaks searched over the full range or over a
# bounded range (``update_peaks_bounded``), and with the masks (a) exactly as hvsrpy left them after the peak search
# (a curve without a peak is marked there), (b) all True, (c) pre-set differently for windows and peaks.  The window
# lists {S, M}^3 give every selection pattern of 3 windows.  Oracle: both masks on every azimuth == the returned
# selection (``check_masks``); when a mask kind is, in every call of the root, True exactly at the kept windows
# whose curve has a peak, its differences are keyed ``...:curve-without-peak``.

CURVE_N = 3
CURVE_DT = 0.01
CURVE_SHAPES = {"quick": ["p3", "up", "flat", "p5"],
                "thorough": ["p3", "up", "flat", "p5", "down", "edge_lo", "plateau"]}
CURVE_SEARCH = {"full": (None, None), "below_5.5": (None, 5.5)}     # p5 (peak at 6 Hz) has no peak below 5.5 Hz
CURVE_MASKS = ["as_left_by_hvsrpy", "all_true", "pre"]
CURVE_KINDS = ["trad", "azi"]
CURVE_LISTS = [list(t) for t in itertools.product(["S", "M"], repeat=CURVE_N)]
CURVE_OPS = {
    "quick": [dict(fn="sta_lta", sta=1, lta=4, limits=(0.2, 2.5)),
              dict(fn="sta_lta", sta=1, lta=4, limits=(0.0, 50.0)),
              dict(fn="maximum_value", normalized=True, threshold=0.3)],
    "thorough": [dict(fn="sta_lta", sta=1, lta=4, limits=(0.2, 2.5)),
                 dict(fn="sta_lta", sta=1, lta=4, limits=(0.0, 50.0)),
                 dict(fn="sta_lta", sta=0.5, lta=2, limits=(0.5, 1.25)),
                 dict(fn="maximum_value", normalized=True, threshold=0.3),
                 dict(fn="maximum_value", normalized=False, threshold=3.0),
                 dict(fn="maximum_value", normalized=False, threshold=100.0)],
}


def curve_second_azimuth(assign, alphabet):
    """Assignment of the second azimuth: window order reversed, every shape replaced by the next of the alphabet."""
    return [alphabet[(alphabet.index(s) + 1) % len(alphabet)] for s in reversed(assign)]


def curve_object(kind, assign, alphabet, search, masks):
    """New object; (object, [per azimuth: per window: curve has no peak in the search range])."""
    def trad(shapes):
        return HvsrTraditional(FREQ, A.curve_set(shapes, 7))
    if kind == "trad":
        h = trad(assign)
        trads = [h]
    else:
        h = HvsrAzimuthal([trad(assign), trad(curve_second_azimuth(assign, alphabet))], [0.0, 90.0])
        trads = list(h.hvsrs)
    if CURVE_SEARCH[search] != (None, None):
        h.update_peaks_bounded(search_range_in_hz=CURVE_SEARCH[search])
    peakless = []
    for t in trads:
        left = (np.array(t.valid_window_boolean_mask, copy=True), np.array(t.valid_peak_boolean_mask, copy=True))
        t.valid_peak_boolean_mask = np.ones(CURVE_N, dtype=bool)
        peakless.append(np.isnan(np.asarray(t.peak_frequencies, dtype=float)).tolist())    # public reading
        if masks == "as_left_by_hvsrpy":
            t.valid_window_boolean_mask, t.valid_peak_boolean_mask = left
        elif masks == "all_true":
            t.valid_window_boolean_mask = np.ones(CURVE_N, dtype=bool)
            t.valid_peak_boolean_mask = np.ones(CURVE_N, dtype=bool)
        else:
            t.valid_window_boolean_mask = np.array([i % 2 == 1 for i in range(CURVE_N)])
            t.valid_peak_boolean_mask = np.array([i % 2 == 0 for i in range(CURVE_N)])
    return h, peakless


def curve_root(ctx, root, tier):
    kind, search, masks, alphabet = root["hvsr"], root["search"], root["masks"], root["alphabet"]
    pending = []                                # mask violations of this root
    explained = {"window": True, "peak": True}  # is EVERY mask of this kind, in every call of the root, equal to
    #                                             "selection AND the curve of the window has a peak"?
    for assign in root["assignments"]:
        for ws in CURVE_LISTS:
            for op in CURVE_OPS[tier]:
                h, peakless = curve_object(kind, assign, alphabet, search, masks)
                start = [[np.asarray(t.valid_window_boolean_mask).tolist(), np.asarray(t.valid_peak_boolean_mask).tolist()]
                         for t in ([h] if kind == "trad" else h.hvsrs)]
                recs = make_records(ws, CURVE_DT, 1.0)
                fn = op["fn"]
                detail = dict(family="curves held by the attached object", fn=fn + "_window_rejection", call=op,
                              windows=ws, dt=CURVE_DT, components=ALL, hvsr=kind, frequency=FREQ,
                              curve_shapes_azimuth_0=assign,
                              curve_shapes_azimuth_1=curve_second_azimuth(assign, alphabet) if kind == "azi" else None,
                              curves="hvmc.alphabets.curve_set(shapes, 7)", search_range_in_hz=CURVE_SEARCH[search],
                              masks_before_the_call=masks, mask_values_before_the_call=start,
                              curve_without_peak=peakless,
                              object="hvmc.checks.c13.curve_object(hvsr, shapes, alphabet, search, masks)",
                              signals="hvmc.checks.c13.window_arrays(name, dt)[component]")
                ctx.count("states")
                ctx.count("curve_family_calls")
                try:
                    if fn == "sta_lta":
                        out = sta_lta_window_rejection(recs, sta_seconds=op["sta"], lta_seconds=op["lta"],
                                                       min_sta_lta_ratio=op["limits"][0],
                                                       max_sta_lta_ratio=op["limits"][1], components=ALL, hvsr=h)
                    else:
                        out = maximum_value_window_rejection(recs, maximum_value_threshold=op["threshold"],
                                                             normalized=op["normalized"], components=ALL, hvsr=h)
                except Exception as e:      # noqa: BLE001
                    ctx.count("transitions")
                    ctx.violation(f"C13:{fn}:call:raises", root, detail=detail, observed=f"{type(e).__name__}: {e}",
                                  explanation=f"{fn} rejection raised inside its domain")
                    continue
                ctx.count("transitions")
                kept = selection(recs, out)
                if kept is None:
                    ctx.violation(f"C13:{fn}:returned-list:identity-order", root, detail=detail,
                                  observed=repr(out)[:300],
                                  explanation="the returned value is not a sub-list of the given windows")
                    continue
                ctx.outcome(f"c|{fn}|{bits(kept)}|" + "/".join(bits(p) for p in peakless))
                for p, s in zip(peakless, start):
                    if any(k and q for k, q in zip(kept, p)):
                        ctx.count("kept_window_whose_curve_has_no_peak")
                        ctx.nontrivial_case(f"c|{kind}|{search}|{masks}|{'.'.join(assign)}|{bits(kept)}")
                        if any(k and q and not m for k, q, m in zip(kept, p, s[1])):
                            ctx.count("kept_window_whose_curve_has_no_peak_and_peak_mask_was_false")
                    if any(not k and q for k, q in zip(kept, p)):
                        ctx.count("rejected_window_whose_curve_has_no_peak")
                    if all(p):
                        ctx.count("object_without_any_peak")
                check_masks(ctx, root, fn, h, kind, kept, detail, pending=pending)
                for t, p in zip(([h] if kind == "trad" else h.hvsrs), peakless):
                    for short, name in (("window", "valid_window_boolean_mask"), ("peak", "valid_peak_boolean_mask")):
                        if np.asarray(getattr(t, name)).tolist() != [k and not q for k, q in zip(kept, p)]:
                            explained[short] = False
                ctx.count("validated")
    # ---- report.  A mask kind whose every value in this root is "kept and the curve has a peak" (and that differs
    # from the selection somewhere) was cleared where the curve has no peak: key of its own.  Any other difference
    # (masks not written, written on one azimuth only, ...) keeps the key of the main families.
    for short, v in pending:
        key = v.pop("key") + (":curve-without-peak" if explained[short] else "")
        if explained[short]:
            v["explanation"] += ("; in every call of this root this mask is True exactly at the kept windows whose "
                                 "curve has a peak in the search range")
        ctx.violation(key, v.pop("root"), **v)
    if len(ctx.samples) < 6:
        ctx.sample(dict(family="curves held by the attached object", root=dict(root, assignments=root["assignments"][:3]),
                        lists=CURVE_LISTS, operations=CURVE_OPS[tier], search=CURVE_SEARCH))


def curve_roots(tier):
    alphabet = CURVE_SHAPES[tier]
    assigns = [list(t) for t in itertools.product(alphabet, repeat=CURVE_N)]
    out = []
    for kind in CURVE_KINDS:
        for search in CURVE_SEARCH:
            for masks in CURVE_MASKS:
                for g in _groups(assigns, 64 if tier == "quick" else 49):
                    out.append(dict(fn="curves", hvsr=kind, search=search, masks=masks, alphabet=alphabet,
                                    assignments=g))
    return out


# ---------------------------------------------------------------------------
# maximum value

def maxval_case(ctx, root, ws, case):
    comps, kind = case["comps"], case["hvsr"]
    dt = MAX_DT
    patterns = set()
    for factor in FACTORS:
        maxima = [window_maxima(w, factor) for w in ws]
        h = make_hvsr(kind, len(ws))        # one object per factor; masks are renewed before every call
        for normalized, thr0 in CRITS:
            thr = thr0 if normalized else thr0 * factor
            detail = dict(fn="maximum_value_window_rejection", windows=ws, dt=dt, components=comps,
                          maximum_value_threshold=thr, normalized=normalized, factor=factor, hvsr=kind,
                          largest_abs=maxima,
                          signals="hvmc.checks.c13.window_arrays(name, dt)[component] * factor")
            recs = make_records(ws, dt, factor)
            reset_masks(h, kind, len(ws))
            ctx.count("states")
            mode = "normalized" if normalized else "absolute"
            try:
                out = maximum_value_window_rejection(recs, maximum_value_threshold=thr,
                                                     normalized=normalized, components=comps, hvsr=h)
            except Exception as e:      # noqa: BLE001
                ctx.count("transitions")
                ctx.violation("C13:maximum_value:call:raises", root, detail=detail,
                              observed=f"{type(e).__name__}: {e}",
                              explanation="maximum_value_window_rejection raised inside its domain")
                continue
            ctx.count("transitions")
            kept = selection(recs, out)
            if kept is None:
                ctx.violation("C13:maximum_value:returned-list:identity-order", root, detail=detail,
                              observed=repr(out)[:300],
                              explanation="the returned value is not a sub-list of the given windows "
                                          "(same objects, original order)")
                continue
            patterns.add(tuple(kept))
            ctx.outcome(f"m|{'.'.join(ws)}|{bits(kept)}")
            exp = RM.decisions(maxima, comps, thr, normalized)
            compared = False
            for i, e in enumerate(exp):
                if e is None:
                    ctx.count("max_undecided_tie_or_ambiguous")
                    continue
                compared = True
                ctx.count("max_kept" if e else "max_rejected")
                if normalized and e != (1.0 < thr):
                    ctx.count("alt_per_window_normalisation_differs")
            if compared:
                ctx.count("validated")
            bad = [i for i, e in enumerate(exp) if e is not None and e != kept[i]]
            if bad:
                i = bad[0]
                ctx.violation(f"C13:maximum_value:decision:{mode}", root,
                              detail=dict(detail, window_index=i, window=ws[i]),
                              expected=exp, observed=kept,
                              explanation="kept although the largest |sample| is not below the threshold"
                              if kept[i] else "rejected although the largest |sample| is below the threshold")
            check_masks(ctx, root, "maximum_value", h, kind, kept, detail)
    if len(patterns) > 1:
        ctx.nontrivial_case(f"m|{'.'.join(ws)}|{comps}")


# ---------------------------------------------------------------------------
# runner interface

def _lists(alpha, n):
    return [list(t) for t in itertools.product(alpha, repeat=n)]


def _groups(items, size):
    return [items[i:i + size] for i in range(0, len(items), size)]


def plan(tier):
    """[(fn, k, lists, group size, parts)] - the complete enumeration plan of a tier."""
    l1, l2, l3, l4 = (_lists(ALPHA, n) for n in (1, 2, 3, 4))
    r3_3, r4_3, r3_4, r4_4 = _lists(R3, 3), _lists(R4, 3), _lists(R3, 4), _lists(R4, 4)
    if tier == "quick":
        return [
            ("sta_lta", 2, l1, 1, 1),
            ("sta_lta", 1, l2, 4, 1),
            ("sta_lta", 0, r4_3, 8, 1),
            ("sta_lta", 0, r3_4, 9, 1),
            ("maximum_value", None, l1, 2, 1),
            ("maximum_value", 1, l2, 8, 1),
            ("maximum_value", 1, r4_3, 8, 1),
            ("maximum_value", 0, r3_4, 27, 1),
        ]
    def minus(lists, sub):
        drop = {tuple(x) for x in sub}
        return [x for x in lists if tuple(x) not in drop]
    return [
        ("sta_lta", None, l1, 1, 4),
        ("sta_lta", 2, l2, 2, 2),
        ("sta_lta", 1, r4_3, 8, 1),
        ("sta_lta", 0, minus(l3, r4_3), 32, 1),
        ("sta_lta", 1, r3_4, 3, 1),
        ("sta_lta", 0, minus(l4, r3_4), 64, 1),
        ("maximum_value", None, l1 + l2, 8, 1),
        ("maximum_value", 1, l3, 16, 1),
        ("maximum_value", 1, r4_4, 8, 1),
        ("maximum_value", 0, minus(l4, r4_4), 128, 1),
    ]


def roots(tier, seed):
    out = []
    for fn, k, lists, gsize, parts in plan(tier):
        for g in _groups(lists, gsize):
            for p in range(parts):
                out.append(dict(fn=fn, k=k, lists=g, part=[p, parts]))
    out += same_n_roots(tier)
    out += uneq_roots(tier)
    out += hist_roots(tier)
    out += curve_roots(tier)
    return out


def run_root(root, ctx, tier):
    if root["fn"] == "sta_lta_same_n":
        same_n_root(ctx, root)
        return
    if root["fn"] == "sta_lta_unequal":
        uneq_root(ctx, root)
        return
    if root["fn"] == "history":
        hist_root(ctx, root)
        return
    if root["fn"] == "curves":
        curve_root(ctx, root, tier)
        return
    fn, k = root["fn"], root["k"]
    space = STA_SPACE if fn == "sta_lta" else MAX_SPACE
    cases = list(product.deviations(space, k))
    p, n = root.get("part", [0, 1])
    cases = cases[p::n]
    runner = stalta_case if fn == "sta_lta" else maxval_case
    _SINGLE.clear()         # real-code memo lives within one root: counts do not depend on scheduling
    for ws in root["lists"]:
        for case in cases:
            ctx.count("configurations")
            runner(ctx, root, ws, case)
    if len(ctx.samples) < 2 and cases:
        ctx.sample(dict(fn=fn, windows=root["lists"][0], configuration=cases[-1],
                        inner_grid=f"16 limit pairs x {len(FACTORS)} factors" if fn == "sta_lta"
                        else f"10 (normalized, threshold) x {len(FACTORS)} factors",
                        window_definitions={w: WINDOWS[w] for w in root["lists"][0]}))


def finalize(ctx, tier):
    c = ctx.counters
    need = ["clear_kept", "clear_rejected", "max_kept", "max_rejected", "mask_comparisons",
            "list_independence_comparisons", "conjunction_comparisons", "rescaling_comparisons",
            "widening_comparisons", "alt_first_component_only_differs",
            "alt_per_window_normalisation_differs", "same_n_clear_kept", "same_n_clear_rejected",
            "alt_other_time_step_layout_differs", "uneq_clear_kept", "uneq_clear_rejected",
            "uneq_list_independence_comparisons", "refused_calls_judged", "refused_mask_comparisons",
            "refused_with_earlier_rejections_on_the_object", "refused_after_a_call_that_returned",
            "refused_after_examining_windows", "refused_after_examining_a_window_that_fails",
            "history_returned_calls_judged", "returned_after_a_refused_call",
            "kept_window_whose_curve_has_no_peak", "kept_window_whose_curve_has_no_peak_and_peak_mask_was_false",
            "rejected_window_whose_curve_has_no_peak", "object_without_any_peak"]
    missing = [n for n in need if not c.get(n)]
    if c.get("outside_domain_call_not_refused"):
        ctx.notes["outside_domain_call_not_refused"] = c["outside_domain_call_not_refused"]
    if c.get("same_n_roots_without_discriminating_decision"):
        missing.append("same_n root in which the chunk layout of the other time step never decides otherwise")
    clear = c.get("clear_kept", 0) + c.get("clear_rejected", 0)
    unclear = c.get("unclear_window_decisions", 0)
    ctx.notes["unclear_fraction"] = round(unclear / max(1, clear + unclear), 4)
    if missing or unclear > 0.25 * (clear + unclear):
        ctx.violation("C13:harness:vacuous-oracle", None,
                      detail=dict(missing_counters=missing, clear=clear, unclear=unclear),
                      explanation="an oracle of the check was never exercised, or more than a quarter of "
                                  "the STA/LTA decisions were unclear")


def describe(tier):
    pl = plan(tier)
    sizes = []
    for fn, k, lists, gsize, parts in pl:
        space = STA_SPACE if fn == "sta_lta" else MAX_SPACE
        sizes.append(dict(fn=fn, k="full" if k is None else k, lists=len(lists),
                          list_length=sorted({len(x) for x in lists}),
                          configurations_per_list=product.size(space, k),
                          calls_per_configuration=len(LIMITS) * len(FACTORS) if fn == "sta_lta"
                          else len(CRITS) * len(FACTORS)))
    return dict(
        rule="window lists over the alphabet {S stationary, E/M/L spike early/middle/late on ns/ew/vt, D "
             "dropout, G growing, S8 and Eq scaled copies} (different carriers on the three components, "
             "4 s windows); for every list of the plan below every configuration within k deviations of "
             "the default (components in 11 orders/subsets, sta, lta, hvsr in {none, traditional, "
             "azimuthal x fresh/pre-set masks}, dt) and inside every configuration the complete grid of "
             "16 (min,max) limits x 6 amplitude factors (1, 1e-3, 1e3, 1e-8, 1e-20, 1e20; STA/LTA) or 10 (normalised, threshold) x 6 "
             "factors (maximum value); each element is one execution of the real function on fresh "
             "objects.  A case is counted non-trivial/distinct by (function, list, components, dt, sta, "
             "lta) when its inner grid produced at least two different selections.  Family sta_lta_same_n: for "
             "every listed (n samples, set of time steps, sta, lta) every ORDER of the time steps x {successive "
             "calls, one mixed list (two interleavings)} is one root; inside it 4 component choices x 32 "
             "(min,max) limits are run for windows {stationary, short burst x6 early / x3 mid / x3 late, step "
             "up, step down, early step} of the SAME sample count at each time step, every call judged by the "
             "reference with the window's own time step (clear-inside / clear-outside); a call whose decisions "
             "are all those of another time step's sample counts is keyed same-sample-count-other-time-step.  Family "
             "sta_lta_unequal: every list of 2 (quick) / 2-3 (thorough) windows over {3 s, 4 s, 7 s} x {stationary, "
             "burst in the first second, burst in the last second} at one time step x 3 (sta, lta) x 3 component "
             "choices x 4 limits, each decision compared with the reference for that window and with the decision "
             "for the list holding only that window.  After every call with an azimuthal result attached one kept "
             "window is rejected by hand on azimuth index 0 and the masks of the other azimuths must still equal "
             "the selection.  Family history: for every attached object {traditional, azimuthal} x {fresh masks, "
             "masks pre-set differently for windows and peaks} and every listed component choice EVERY history of "
             "1..depth calls over the operation alphabet (STA/LTA narrow / default / wide limits, STA/LTA on "
             "windows of unequal length, maximum value; refused: STA or LTA longer than every window, STA or LTA "
             "longer than the window at position 0 / 1 / 2 of a list of unequal lengths, a component that does not "
             "exist after existing ones, for both functions) is executed on a new object of 3 windows; the last "
             "call is judged: returned -> both masks on every azimuth equal the returned selection, refused (no "
             "selection) -> both masks on every azimuth are what they were before that call.  A history is "
             "counted non-trivial when its last call is refused on an object that carries a rejection.  Family "
             "curves: for every object kind {traditional, azimuthal} x peak search range {full, below 5.5 Hz (set "
             "with update_peaks_bounded)} x mask origin {as hvsrpy left them after the peak search, all True, "
             "pre-set differently for windows and peaks} EVERY assignment of the listed curve shapes (with a peak, "
             "rising, flat, peak above the bounded range; thorough also falling, maximum on the first sample, "
             "flat-topped) to the 3 windows of the object (second azimuth: order reversed, next shape of the "
             "alphabet) x every window list of {S, M}^3 x the listed STA/LTA / maximum-value calls is executed on a "
             "new object; both masks on every azimuth must equal the returned selection; a mask kind that in EVERY "
             "call of a root is True exactly at the kept windows whose curve has a peak is keyed curve-without-peak.  Such a case is counted non-trivial when "
             "a kept window's curve has no peak",
        bounds=dict(plan=sizes, alphabet=ALPHA, reduced_alphabets=dict(R4=R4, R3=R3),
                    sta=STA_SPACE["sta"], lta=STA_SPACE["lta"], dt=STA_SPACE["dt"],
                    min_ratio=MINS, max_ratio=MAXS, factors=FACTORS, maximum_value_criteria=CRITS,
                    hvsr=HVSR_KINDS, components=COMPS,
                    same_sample_count=dict(sets=SAME_N_SETS[tier], modes=SAME_N_MODES, windows=SAME_N_LIST,
                                           components=SAME_N_COMPS, limits=len(SAME_N_LIMITS),
                                           roots=len(same_n_roots(tier))),
                    curves=dict(shapes=CURVE_SHAPES[tier], windows_per_object=CURVE_N, search_ranges=CURVE_SEARCH,
                                mask_origins=CURVE_MASKS, hvsr=CURVE_KINDS, window_lists=CURVE_LISTS,
                                operations=CURVE_OPS[tier], roots=len(curve_roots(tier)),
                                calls=len(CURVE_KINDS) * len(CURVE_SEARCH) * len(CURVE_MASKS) * len(CURVE_LISTS)
                                * len(CURVE_OPS[tier]) * len(CURVE_SHAPES[tier]) ** CURVE_N),
                    history=dict(components_and_depth=HIST_COMPS[tier], operations=HIST_OPS, lists=HIST_LISTS,
                                 hvsr=HIST_KINDS, windows_per_object=HIST_N,
                                 histories=len(HIST_KINDS) * sum(len(HIST_OPS) ** d for _, depth in HIST_COMPS[tier]
                                                                 for d in range(1, depth + 1)))),
        exhaustive=True,
        assumptions=[
            "STA/LTA decisions are compared with the reference only for windows that are clearly inside / "
            "outside under every plausible reading of the sample counts (floor(sta/dt) exact and one less, "
            "same for lta, LTA prefix taken from the window or from its whole-chunk part), relative margin "
            "1e-6; the clarity-independent relations are checked on all windows",
            "a ratio within 1e-9 of a limit is not compared under rescaling; a maximum within 1e-9 of the "
            "threshold is a tie and not decided",
            "normalised maximum value: 'overall largest' is accepted both as the largest over the examined "
            "components and over all components of all windows; windows on which the two readings differ "
            "are not decided",
            "time step 0.01 / 0.02 s, 4 s windows, sta/lta from {0.1,0.5,1} x {1,2,window}",
            "history family: a call that raises returns no selection, so the masks of the attached object must be "
            "what they were before it (values; the array objects may be new); that a length exceeding a window IS "
            "refused is outside the quantifier and not demanded (such a call, if it returns, is judged like any "
            "returned call and counted outside_domain_call_not_refused); time step 0.01 s, 3 windows per object",
            "curves family: whether a curve 'has no peak' is read from the object itself through its public "
            "peak_frequencies (NaN) with all peaks accepted, before the masks under test are put in place; it only "
            "feeds the non-vacuity counters and the curve-without-peak suffix of the key (decided per root), the oracle (masks == "
            "selection) does not depend on it; 7 frequencies, 3 windows, amplitude factor 1, all three components",
            "same-sample-count family: amplitude factor 1, no HVSR object; roots share their worker process with "
            "other roots, so the very first call for a given (n, sta, lta) in a process may belong to another "
            "root - the oracle is absolute (reference per window), so this only changes WHICH time step would "
            "see a stale value, not whether it is seen"])
