"""C12 - HVSR results survive a write/read round trip after any history.

E1: the state graphs of C05 (HvsrTraditional), C11 (HvsrAzimuthal) and a small
one for HvsrDiffuseField are re-used; in every reachable state with at least
two accepted windows (per azimuth), for both distributions requested at write
time, the object is written with write_hvsr_object_to_file and read back.
"""
import copy
import math
import os
import shutil
import tempfile

import numpy as np

import hvsrpy
from hvsrpy import TimeSeries, SeismicRecording3C
from hvsrpy.hvsr_diffuse_field import HvsrDiffuseField
from hvsrpy.hvsr_traditional import HvsrTraditional
from hvsrpy.hvsr_azimuthal import HvsrAzimuthal
from hvsrpy.object_io import write_hvsr_object_to_file, read_hvsr_object_from_file

from hvmc import alphabets as A
from hvmc.engine import explorer
from hvmc.engine.core import bitwise_equal, jsonable
from hvmc.checks import c05, c11
from hvmc.checks.c05 import _call, _nonan, _same, ACCESSORS

PROPERTY = "C12"
DISTS = ("lognormal", "normal")
_TMP = None


def _tmpdir():
    global _TMP
    if _TMP is None or not os.path.isdir(_TMP):
        _TMP = tempfile.mkdtemp(prefix="c12-")
    return _TMP


# ---------------------------------------------------------------------------
# real results of process() (their meta carries what the reader dispatches on)

def _recordings(n=3, L=64, dt=0.01):
    recs = []
    for i in range(n):
        ns = A.sig_array("noise1", L) * (1 + 0.25 * i) + 0.1 * A.sig_array("ramp", L)
        ew = A.sig_array("noise2", L) + 0.05 * i
        vt = A.sig_array("noise3", L) * (1 + 0.125 * i)
        recs.append(SeismicRecording3C(TimeSeries(ns, dt), TimeSeries(ew, dt), TimeSeries(vt, dt),
                                       degrees_from_north=15.0, meta={"site": "hvmc", "tags": ["a", 1]}))
    return recs


_FCS = [6.0, 9.0, 13.0, 19.0, 27.0, 36.0, 44.0]


def real_result(kind, azimuths=None):
    sm = dict(operator="konno_and_ohmachi", bandwidth=10, center_frequencies_in_hz=list(_FCS))
    if kind == "trad":
        s = hvsrpy.HvsrTraditionalProcessingSettings(smoothing=sm, fft_settings={"n": 128})
    elif kind == "azi":
        s = hvsrpy.HvsrAzimuthalProcessingSettings(smoothing=sm, fft_settings={"n": 128},
                                                   azimuths_in_degrees=list(azimuths))
    else:
        s = hvsrpy.HvsrDiffuseFieldProcessingSettings(smoothing=sm, fft_settings={"n": 128})
    return hvsrpy.process(_recordings(), s)


_META = {}


def real_meta(kind, azimuths=None):
    key = (kind, tuple(azimuths or ()))
    if key not in _META:
        _META[key] = copy.deepcopy(real_result(kind, azimuths).meta)
    return copy.deepcopy(_META[key])


# ---------------------------------------------------------------------------
# the round-trip oracle

def _numeric_block(path):
    return np.loadtxt(path, comments="#", delimiter=",", ndmin=2)


def _trads(o):
    return [o] if isinstance(o, HvsrTraditional) else list(o.hvsrs)


def default_arguments(o, kind, ctx, root, hist):
    """Omitting the distributions is the same as passing the documented defaults ('lognormal', 'lognormal'),
    whatever was done to the object before."""
    if kind == "diffuse":
        return
    d0 = _tmpdir()
    pa = os.path.join(d0, f"da_{os.getpid()}.csv")
    pb = os.path.join(d0, f"db_{os.getpid()}.csv")
    try:
        write_hvsr_object_to_file(o, pa)
        write_hvsr_object_to_file(o, pb, distribution_mc="lognormal", distribution_fn="lognormal")
    except Exception:       # noqa: BLE001 - unwritable states are judged (or skipped) by roundtrip()
        return
    ctx.count("transitions", 2)
    ctx.count("default_argument_comparisons")
    with open(pa, "rb") as f:
        a = f.read()
    with open(pb, "rb") as f:
        b = f.read()
    if a != b:
        la, lb = a.decode(errors="replace").splitlines(), b.decode(errors="replace").splitlines()
        diff = [i for i, (x, y) in enumerate(zip(la, lb)) if x != y][:3]
        ctx.violation(f"C12:{kind}:write:omitted-distributions-differ-from-documented-defaults", root,
                      detail=dict(hist=list(hist), first_differing_lines=diff),
                      expected=[lb[i][:160] for i in diff], observed=[la[i][:160] for i in diff],
                      explanation="write_hvsr_object_to_file(obj, f) and the same call with the documented default "
                                  "distributions passed explicitly produce different files")


def roundtrip(o, kind, ctx, root, hist):
    default_arguments(o, kind, ctx, root, hist)
    d0 = _tmpdir()
    for dmc, dfn in ((a, b) for a in DISTS for b in DISTS):
        p1 = os.path.join(d0, f"w1_{os.getpid()}.csv")
        p2 = os.path.join(d0, f"w2_{os.getpid()}.csv")
        ctx.count("transitions", 2)
        detail = dict(hist=list(hist), distribution_mc=dmc, distribution_fn=dfn)
        snap = copy.deepcopy(o)
        try:
            write_hvsr_object_to_file(o, p1, distribution_mc=dmc, distribution_fn=dfn)
        except Exception as e:      # noqa: BLE001
            if kind != "diffuse" and any(_israised(_call(o, acc, (), dmc)) for acc in ("mean_curve", "std_curve")):
                # the object itself cannot produce its derived curves in this state (e.g. an azimuth
                # whose accepted windows all lack a peak): nothing to write - outside the quantifier
                ctx.count("states_whose_derived_curves_are_undefined")
                continue
            ctx.violation(f"C12:{kind}:write-raises", root, detail=detail, observed=f"{type(e).__name__}: {e}",
                          explanation="write_hvsr_object_to_file raised in a state with >= 2 accepted windows")
            continue
        try:
            r = read_hvsr_object_from_file(p1)
        except Exception as e:      # noqa: BLE001
            ctx.violation(f"C12:{kind}:read-raises", root, detail=detail, observed=f"{type(e).__name__}: {e}",
                          explanation="read_hvsr_object_from_file raised on a file written by hvsrpy")
            continue
        ctx.count("roundtrips")
        if type(r) is not type(o):
            ctx.violation(f"C12:{kind}:class", root, detail=detail, expected=type(o).__name__,
                          observed=type(r).__name__, explanation="read-back object has a different class")
            continue
        # writing must not change the object either
        if kind != "diffuse":
            for t0, t1 in zip(_trads(snap), _trads(o)):
                if not (bitwise_equal(t0.amplitude, t1.amplitude) and
                        np.array_equal(t0.valid_window_boolean_mask, t1.valid_window_boolean_mask) and
                        np.array_equal(t0.valid_peak_boolean_mask, t1.valid_peak_boolean_mask)):
                    ctx.violation(f"C12:{kind}:write-modifies-object", root, detail=detail,
                                  explanation="writing changed the object")
        if not bitwise_equal(np.asarray(r.frequency), np.asarray(o.frequency)):
            ctx.violation(f"C12:{kind}:frequency", root, detail=detail, expected=np.asarray(o.frequency).tolist(),
                          observed=np.asarray(r.frequency).tolist(), explanation="frequencies differ after the round trip")
        if kind == "diffuse":
            if not bitwise_equal(r.amplitude, o.amplitude):
                ctx.violation("C12:diffuse:curve", root, detail=detail, explanation="curve differs after the round trip")
            if not (_rng(r._search_range_in_hz) == _rng(o._search_range_in_hz)):
                ctx.violation("C12:diffuse:search-range", root, detail=detail, expected=_rng(o._search_range_in_hz),
                              observed=_rng(r._search_range_in_hz), explanation="search range not restored")
            if not (_fe(r.peak_frequency) == _fe(o.peak_frequency) and _fe(r.peak_amplitude) == _fe(o.peak_amplitude)):
                ctx.violation("C12:diffuse:peak", root, detail=detail,
                              expected=[_fe(o.peak_frequency), _fe(o.peak_amplitude)],
                              observed=[_fe(r.peak_frequency), _fe(r.peak_amplitude)],
                              explanation="peak differs after the round trip")
            ctx.outcome(("diffuse", _fe(o.peak_frequency)))
            continue
        to, tr = _trads(o), _trads(r)
        if len(to) != len(tr):
            ctx.violation(f"C12:{kind}:azimuth-count", root, detail=detail, expected=len(to), observed=len(tr),
                          explanation="number of azimuths differs after the round trip")
            continue
        if kind == "azi" and [float(a) for a in r.azimuths] != [float(a) for a in o.azimuths]:
            ctx.violation("C12:azi:azimuth-values", root, detail=detail, expected=list(o.azimuths),
                          observed=list(r.azimuths), explanation="azimuth values differ after the round trip")
        for ai, (a, b) in enumerate(zip(to, tr)):
            d2 = dict(detail, azimuth=ai)
            if not bitwise_equal(a.amplitude, b.amplitude):
                ctx.violation(f"C12:{kind}:curves", root, detail=d2, explanation="curves are not bit-identical "
                                                                                   "after the round trip")
            if not (np.array_equal(a.valid_window_boolean_mask, b.valid_window_boolean_mask)):
                ctx.violation(f"C12:{kind}:window-mask", root, detail=d2,
                              expected=np.asarray(a.valid_window_boolean_mask).tolist(),
                              observed=np.asarray(b.valid_window_boolean_mask).tolist(),
                              explanation="accepted/rejected windows differ after the round trip")
            if not (np.array_equal(a.valid_peak_boolean_mask, b.valid_peak_boolean_mask)):
                ctx.violation(f"C12:{kind}:peak-mask", root, detail=d2,
                              expected=np.asarray(a.valid_peak_boolean_mask).tolist(),
                              observed=np.asarray(b.valid_peak_boolean_mask).tolist(),
                              explanation="valid-peak mask differs after the round trip")
            if _rng(a._search_range_in_hz) != _rng(b._search_range_in_hz):
                ctx.violation(f"C12:{kind}:search-range", root, detail=d2, expected=_rng(a._search_range_in_hz),
                              observed=_rng(b._search_range_in_hz), explanation="search range not restored")
            if jsonable(a._find_peaks_kwargs or {}) != jsonable(b._find_peaks_kwargs or {}):
                ctx.violation(f"C12:{kind}:find-peaks-kwargs", root, detail=d2, explanation="find_peaks kwargs not restored")
            pa = [_fe(v) for v in a._main_peak_frq] + [_fe(v) for v in a._main_peak_amp]
            pb = [_fe(v) for v in b._main_peak_frq] + [_fe(v) for v in b._main_peak_amp]
            if pa != pb:
                ctx.violation(f"C12:{kind}:peaks", root, detail=d2, expected=pa, observed=pb,
                              explanation="per-window peaks differ after the round trip")
        for d in DISTS:
            for name, args in ACCESSORS:
                g0 = _call(o, name, args, d)
                g1 = _call(r, name, args, d)
                ctx.count("accessor_comparisons")
                if not _same(g0, g1):
                    ctx.violation(f"C12:{kind}:statistic:{name}", root, detail=dict(detail, distribution=d),
                                  expected=_nonan(g0), observed=_nonan(g1),
                                  explanation=f"{name}({d!r}) differs after the round trip")
        # derived columns of the file are those of the object that was written
        blk = _numeric_block(p1)
        mc = _call(o, "mean_curve", (), dmc)
        sc = _call(o, "std_curve", (), dmc)
        if not (isinstance(mc, tuple) and mc and mc[0] == "raised") and \
                not bitwise_equal(blk[:, -2], np.asarray(mc, dtype=float)):
            ctx.violation(f"C12:{kind}:derived-columns:mean-curve", root, detail=detail, expected=list(mc),
                          observed=blk[:, -2].tolist(),
                          explanation="the file's mean-curve column is not mean_curve() of the object written")
        if not (isinstance(sc, tuple) and sc and sc[0] == "raised") and \
                not bitwise_equal(blk[:, -1], np.asarray(sc, dtype=float)):
            ctx.violation(f"C12:{kind}:derived-columns:std-curve", root, detail=detail, expected=list(sc),
                          observed=blk[:, -1].tolist(),
                          explanation="the file's std-curve column is not std_curve() of the object written")
        # a second write of the read-back object reproduces the numeric block
        try:
            write_hvsr_object_to_file(r, p2, distribution_mc=dmc, distribution_fn=dfn)
            blk2 = _numeric_block(p2)
            if not bitwise_equal(blk, blk2):
                ctx.violation(f"C12:{kind}:second-write-differs", root, detail=detail,
                              explanation="writing the read-back object gives a different numeric block")
        except Exception as e:      # noqa: BLE001
            ctx.violation(f"C12:{kind}:second-write-raises", root, detail=detail, observed=f"{type(e).__name__}: {e}",
                          explanation="writing the read-back object raised")
        ctx.outcome((kind, [np.asarray(t.valid_window_boolean_mask).tolist() for t in to]))


def _israised(v):
    return isinstance(v, tuple) and len(v) > 0 and v[0] == "raised"


def _rng(r):
    return None if r is None else [None if v is None else float(v) for v in r]


def _fe(v):
    if v is None:
        return "nan"
    v = float(v)
    return "nan" if math.isnan(v) else v


# ---------------------------------------------------------------------------
# systems

class TradSystem(c05.System):
    def __init__(self, root):
        if root.get("real"):
            self.real = True
            self.root = root
            base = real_result("trad")
            self.freq = [float(v) for v in base.frequency]
            self.curves = [[float(v) for v in row] for row in base.amplitude]
            self.W = len(self.curves)
            fake = dict(root, F=len(self.freq), grid="lin", shapes=["p2"] * self.W)
            super().__init__(fake)
            self.freq = [float(v) for v in base.frequency]
            self.curves = [[float(v) for v in row] for row in base.amplitude]
            self._rebuild_ops()
        else:
            self.real = False
            super().__init__(root)

    def _rebuild_ops(self):
        # range menu depends on the frequency vector: rebuild it for the real grid
        import itertools
        F = len(self.freq)
        ops = []
        for r in c05.range_menu(self.freq):
            ops.append(dict(op="U", rng=list(r), kw=None))
        ops.append(dict(op="U", rng=[None, None], kw={"prominence": 0.3}))
        for n in (0.5, 1, 2):
            ops.append(dict(op="F", n=n, dfn="lognormal", dmc="lognormal", rng=[None, None]))
        for i in range(self.W):
            ops.append(dict(op="M", i=i))
        self.ops = ops

    def initial(self, root):
        o = HvsrTraditional(self.freq, self.curves, meta=real_meta("trad"))
        return c05.Holder(o)

    def canon(self, h):
        # what the object remembers about the last rejection is written into the file header: states that
        # differ in the remembered distributions are different states for a writer
        a = h.obj.meta.get("window rejection algorithm arguments") or {}
        return super().canon(h) + ((a.get("distribution_mc"), a.get("distribution_fn")),)

    def observe(self, h):
        # "touch": read the statistics (as a user would between steps) but merge states on canon only
        for name, args in ACCESSORS:
            _call(h.obj, name, args, "lognormal")
        return None

    def invariant(self, h, hist, ctx, root):
        o = h.obj
        if int(np.sum(o.valid_window_boolean_mask)) < 2:
            ctx.count("states_outside_quantifier")
            return
        ctx.count("validated")
        roundtrip(o, "trad", ctx, root, hist)


class AziSystem(c11.System):
    def __init__(self, root):
        self.az = root["azimuths"]
        if root.get("real"):
            base = real_result("azi", self.az)
            self.root = root
            fake = dict(root, F=7, grid="lin", shapes_by_az=[["p2"] * 3 for _ in self.az])
            super().__init__(fake)
            self.freq = [float(v) for v in base.frequency]
            self.csets = [[[float(v) for v in row] for row in t.amplitude] for t in base.hvsrs]
            self.W = len(self.csets[0])
            f, F = self.freq, len(self.freq)
            self.ops = [op for op in self.ops if op["op"] != "U"] + \
                       [dict(op="U", rng=list(r)) for r in ((None, None), (f[1], f[F - 2]), (None, f[3]))]
        else:
            super().__init__(root)

    def _make(self, csets, az=None):
        hs = [HvsrTraditional(self.freq, c) for c in csets]
        return HvsrAzimuthal(hs, list(az or self.az), meta=real_meta("azi", self.az))

    def canon(self, h):
        a = h.obj.meta.get("window rejection algorithm arguments") or {}
        return super().canon(h) + ((a.get("distribution_mc"), a.get("distribution_fn")),)

    def observe(self, h):
        # "touch": read the statistics (as a user would between steps) but merge states on canon only
        for name, args in ACCESSORS:
            _call(h.obj, name, args, "lognormal")
        return None

    def invariant(self, h, hist, ctx, root):
        o = h.obj
        if any(int(np.sum(t.valid_window_boolean_mask)) < 2 for t in o.hvsrs):
            ctx.count("states_outside_quantifier")
            return
        ctx.count("validated")
        roundtrip(o, "azi", ctx, root, hist)


class DiffuseSystem:
    def __init__(self, root):
        self.root = root
        if root.get("real"):
            base = real_result("diffuse")
            self.freq = [float(v) for v in base.frequency]
            self.curve = [float(v) for v in base.amplitude]
        else:
            self.freq = A.GRIDS[root["grid"]](len(root["values"]))
            self.curve = [float(v) for v in root["values"]]
        f, n = self.freq, len(self.freq)
        self.ops = [dict(op="U", rng=list(r), kw=k) for r in
                    ((None, None), (f[1], f[n - 2]), (None, f[3]), (f[2], None), (f[n - 1] + 1, f[n - 1] + 2))
                    for k in (None, {})]

    def initial(self, root):
        return c05.Holder(HvsrDiffuseField(self.freq, self.curve, meta=real_meta("diffuse")))

    def menu(self, h):
        return self.ops

    def apply(self, h, op):
        h.obj.update_peaks_bounded(search_range_in_hz=tuple(op["rng"]), find_peaks_kwargs=op["kw"])
        h.rng, h.kw = tuple(op["rng"]), op["kw"]

    def canon(self, h):
        return (_rng(h.rng) and tuple(_rng(h.rng)), None if h.kw is None else "{}")

    def observe(self, h):
        return (_fe(h.obj.peak_frequency), _fe(h.obj.peak_amplitude))

    def invariant(self, h, hist, ctx, root):
        ctx.count("validated")
        roundtrip(h.obj, "diffuse", ctx, root, hist)


# ---------------------------------------------------------------------------

def roots(tier, seed):
    out = []
    tsets = [["p2", "p4", "twopk", "p3"], ["p1", "p5", "p3", "q3"], ["p2", "steep_up", "p2"],
             ["plateau", "p2", "p3", "flat"], ["up", "down", "p3", "p4"], ["p2", "p3", "p5"]]
    asets = [([["p2", "p4", "p3"], ["p1", "twopk", "p5"]], [0.0, 90.0]),
             ([["p2", "p4", "twopk", "p3"], ["p1", "p5", "p3", "q3"], ["p2", "p2", "p4", "p5"]], [0.0, 60.0, 120.0]),
             ([["p3", "p3", "p4"], ["q3", "p2", "tie"]], [22.5, 112.5]),
             ([["p2", "p4", "p3"]], [7.0]),
             # azimuth sets that are NOT increasing (column order in the file must follow the object)
             ([["p2", "p4", "p3"], ["p1", "twopk", "p5"]], [90.0, 0.0]),
             ([["p2", "p4", "twopk", "p3"], ["p1", "p5", "p3", "q3"], ["p2", "p2", "p4", "p5"]], [120.0, 0.0, 60.0])]
    # windows with two peaks, the higher of which the non-default peak options (height <= 3.6) exclude: the
    # options decide WHICH peak is reported, at the default range as well as at a bounded one
    asets.append(([["twopk", "twopk_r", "twopk"], ["twopk_r", "twopk", "twopk"]], [0.0, 90.0]))
    # neighbouring azimuths a few hundredths of a degree apart, and azimuths that differ only in late digits
    asets.append(([["p2", "p4", "p3"], ["p1", "twopk", "p5"], ["p3", "p3", "p4"], ["q3", "p2", "tie"]],
                  [0.0, 44.95, 45.0, 45.05]))
    asets.append(([["p2", "p4", "p3"], ["p1", "twopk", "p5"], ["p3", "p3", "p4"]], [10.0, 10.000001, 10.1]))
    # the second azimuth has no peak below f[F-2]: a frequency-domain rejection with that upper limit is
    # legitimately refused half-way through the azimuths (the object stays writable or not - if it is, the file
    # must describe it)
    asets.append(([["p2", "p3", "p2"], ["p5", "p5", "p5"]], [0.0, 90.0]))
    asets.append(([["p2", "p3", "p2"], ["p3", "p2", "p2"], ["p5", "p5", "p5"]], [0.0, 60.0, 120.0]))
    # azimuth 1: every window peaks inside (f[1], f[F-2]) but their mean curve keeps rising there - the
    # rejection with that range raises at azimuth 1, after azimuth 0 and before azimuth 2
    HALFWAY = dict(kind="azi", grid="lin", F=7, depth=1, azimuths=[0.0, 60.0, 120.0],
                   shapes_by_az=[["p2", "p3"], ["p2", "p3"], ["p3", "p2"]],
                   rows_by_az=[A.curve_set(["p2", "p3"], 7), [[1, 1, 3, 2, 4, 6, 7], [1, 1, 1.5, 3.6, 2.2, 6, 7]],
                               A.curve_set(["p3", "p2"], 7)])
    dq = 2
    if tier == "quick":
        out.append(dict(kind="trad", real=True, depth=2))
        for s in tsets[:4]:
            out.append(dict(kind="trad", grid="lin", F=7, shapes=s, depth=1 if len(s) == 4 else 2))
        out.append(dict(kind="azi", real=True, azimuths=[0.0, 45.0, 90.0], depth=1))
        for sh, az in asets[:3] + asets[4:]:
            out.append(dict(kind="azi", grid="lin", F=7, shapes_by_az=sh, azimuths=az, depth=1))
        out.append(HALFWAY)
        out.append(dict(kind="diffuse", real=True, depth=2))
        for vals in A.all_curves(5, (1, 2, 3))[::9]:
            out.append(dict(kind="diffuse", grid="lin", values=vals, depth=1))
        return out
    out.append(dict(kind="trad", real=True, depth=3))
    for s in tsets:
        out.append(dict(kind="trad", grid="lin", F=7, shapes=s, depth=2))
        out.append(dict(kind="trad", grid="geo", F=7, shapes=s, depth=1))
    for az in ([0.0, 45.0, 90.0], [0.0, 180.0], [10.0], [135.0, 45.0, 90.0, 0.0]):
        out.append(dict(kind="azi", real=True, azimuths=az, depth=2))
    for sh, az in asets:
        out.append(dict(kind="azi", grid="lin", F=7, shapes_by_az=sh, azimuths=az, depth=2))
    out.append(dict(HALFWAY, depth=2))
    out.append(dict(kind="diffuse", real=True, depth=2))
    for vals in A.all_curves(5, (1, 2, 3)):
        out.append(dict(kind="diffuse", grid="lin", values=vals, depth=2))
    return out


def run_root(root, ctx, tier):
    cls = dict(trad=TradSystem, azi=AziSystem, diffuse=DiffuseSystem)[root["kind"]]
    try:
        sysm = cls(root)
        explorer.bfs(sysm, root, root["depth"], ctx, key_prefix="C12", touch=True)
    finally:
        global _TMP
        if _TMP is not None:
            shutil.rmtree(_TMP, ignore_errors=True)
            _TMP = None
    ctx.nontrivial_case((root["kind"], root.get("real", False), root.get("shapes") or root.get("shapes_by_az")
                         or root.get("values"), root.get("azimuths")))
    if len(ctx.samples) < 4:
        ctx.sample(dict(root=root, menu_size=len(sysm.ops)))


def describe(tier):
    return dict(
        rule="roots: results of the real process() (traditional, azimuthal with several azimuth sets, diffuse field) "
             "and crafted curve sets carrying the meta of such results; the C05/C11 operation menus (range updates, "
             "frequency-domain, manual and time-domain rejections) are explored breadth-first to the root's depth "
             "and in every state with >= 2 accepted windows (per azimuth) the object is written and read back for "
             "both write-time distributions; non-trivial/distinct = (kind, real?, shapes, azimuths); azimuth sets include non-increasing ones, neighbours 0.05 degree apart and a two-peak set for which the peak options (height <= 3.6) select the lower peak at the default range; options dicts are re-used by the harness after the call",
        bounds=dict(depth="1-2 quick, 1-3 thorough"),
        exhaustive=True,
        assumptions=["np.loadtxt parses the %.18e columns exactly (round-trip of IEEE doubles)"])


_describe_base = describe


def describe(tier):     # noqa: F811 - the base description plus what later rounds added to the space
    d = _describe_base(tier)
    d["rule"] = d["rule"] + " " + 'Further azimuthal roots: sets in which a rejection with a bounded range is refused half-way through the azimuths (explicit rows: every window of azimuth 1 peaks inside the range, their mean curve does not). In every written state the file of write(obj, f) with the distributions omitted must equal byte for byte the file of the documented defaults; the distributions remembered from the last rejection are part of the canonical state.'
    return d
