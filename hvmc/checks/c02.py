"""C02 - smoothing operators are the published normalised kernels.

E2: the full product  grid (n, dt) x operator x bandwidth x centre-frequency
vector x implementation (compiled / interpreted)  is executed on the real
``hvsrpy.smoothing`` functions.  Every call smooths a stack of spectra whose
first rows are *all unit impulses* of the grid, so the transposed head of the
output is the operator's complete weight matrix W[fc, f]; it is compared with
the independent reference ``hvmc.ref.kernels``.  The remaining rows (constants,
ramp, cubic, non-negative noise, a linear combination) carry the derived
claims of the statement: constant reproduced, output between the contributing
samples, Savitzky-Golay reproduces cubics, linearity / superposition, row
independence (bit for bit against single-row and permuted calls), compiled ==
interpreted.

Two further families under every case:

* spectrum dtype.  "All non-negative spectra" includes spectra stored as
  int64 / int32 / float32.  A small stack of integer-valued rows (every value
  exactly representable in all four types) is smoothed as float64 (judged
  against the superposition of the impulse responses, i.e. against the
  reference matrix) and then as each other dtype; the result must be the
  float64 one (rtol 1e-12: the operator averages the *values*), and
  op(2 s) == 2 op(s) must hold in every dtype.
* grid sequences.  Roots of kind "grid-sequence" run the complete oracle for
  one grid and then, in the same process, for a second grid that shares the
  number of bins and the first bin but not the spacing (same n, other dt; or
  n and n+1 with n even), in both orders, for every operator.  Anything the
  module remembers from the first grid and wrongly applies to the second is
  exposed deterministically, whatever the distribution of roots over workers.
"""
import math

import numpy as np

import hvsrpy.smoothing as SM

from hvmc import alphabets as A
from hvmc.engine import core
from hvmc.ref import kernels as RK

PROPERTY = "C02"
SG = "savitzky_and_golay"
OPS = list(RK.OPERATORS)

RTOL_REF = 1e-9          # against the reference model
ATOL_W = 1e-13           # on normalised weights (they sum to 1)
RTOL_IMPL = 1e-12        # compiled vs interpreted, constant reproduction
N_EXTRA = 7

GRIDS = {"quick": [(8, 0.01), (16, 0.01)],
         "thorough": [(n, dt) for n in (8, 9, 16, 33, 64) for dt in (0.01, 0.05)]}

# unordered grid pairs with equal bin count and equal first bin (0 Hz) but different
# spacing; every pair becomes two "grid-sequence" roots (both orders) per operator/bandwidth
_PAIRS = {"quick": [((8, 0.01), (8, 0.05)), ((16, 0.01), (16, 0.05)), ((8, 0.01), (9, 0.01))],
          "thorough": [((n, 0.01), (n, 0.05)) for n in (8, 9, 16, 33, 64)]
                      + [((n, dt), (n + 1, dt)) for n in (8, 16, 64) for dt in (0.01, 0.05)]}
SEQUENCES = {t: [[list(a), list(b)] for a, b in p] + [[list(b), list(a)] for a, b in p]
             for t, p in _PAIRS.items()}

DTYPES = ("int64", "int32", "float32")      # besides float64

# call-size family: the number of spectrum entries (rows x bins) handed over in ONE call is
# stepped to just above every listed size, and so is the number of centre frequencies
SIZE_GRIDS = {"quick": [(8, 0.01)], "thorough": [(8, 0.01), (9, 0.05), (16, 0.01)]}
ENTRY_LADDER = {"quick": [2 ** k for k in range(8, 21, 2)] + [10 ** k for k in (3, 4, 5, 6)],
                "thorough": [2 ** k for k in range(8, 23)] + [10 ** k for k in (3, 4, 5, 6)]}
CENTRE_LADDER = {"quick": [2 ** k for k in (6, 8, 10, 12)] + [1000],
                 "thorough": [2 ** k for k in range(6, 15)] + [1000, 10000]}


# ---------------------------------------------------------------------------
# the enumerated space

def grid(n, dt):
    return np.ascontiguousarray(np.fft.rfftfreq(int(n), float(dt)), dtype=float)


def bandwidths(op, df):
    """Three bandwidths per operator: typical, wide, one that empties most windows.
    Savitzky-Golay additionally gets the even point counts that must be refused; the
    kernels in log-frequency additionally get the bandwidth whose half-width is exactly
    one decade, so that samples can lie EXACTLY on a window end (for the linear kernels
    3.0 bins already does that)."""
    if op == "konno_and_ohmachi":
        return [40.0, 10.0, 300.0, 3.0]     # 3.0: half-width exactly one decade (exact window ends)
    if op == "parzen":                      # chosen through the support half-width in bins
        return [RK.SQRT6 * RK.PARZEN_A / (m * df) for m in (2.5, 7.3, 0.4)]
    if op in ("linear_rectangular", "linear_triangular"):
        return [m * df for m in (3.0, 7.3, 0.7)]        # 3.0: midpoints sit exactly on the limit
    if op in ("log_rectangular", "log_triangular"):
        return [0.2, 1.0, 0.02, 2.0]        # 2.0: half-width exactly one decade (exact window ends)
    if op == SG:
        return [5, 3, 9, 4, 2]
    raise KeyError(op)


def window_end_centres(f, op, bw):
    """Centres that put a bin on an END of their window: for every bin k >= 1 (first and
    last included) the centre whose window starts at f[k] (for the last bin that centre lies
    above the grid) and the centre whose window stops at f[k] (for the first bin it lies
    below the grid).  Computed in floating point from the half-width; whether the tie is
    exact is decided by the reference in rational arithmetic (else it is knife-edge).
    Savitzky-Golay has no window in Hz: the bins at which the window starts / stops fitting."""
    nf = len(f)
    if op == SG:
        h = (int(bw) - 1) // 2
        ks = sorted({k for k in (h, h + 1, nf - 1 - h, nf - h) if 0 <= k < nf})
        return [float(f[k]) for k in ks]
    hw = RK.half_width(op, float(bw))
    out = []
    for k in range(1, nf):
        fk = float(f[k])
        if RK._is_log(op):
            p = 10.0 ** hw
            out += [fk * p, fk / p]
        else:
            out += [fk + hw, fk - hw]
    return out


def fc_vectors(f, op=None, bw=None):
    """Named centre-frequency vectors for grid f (f[0] == 0)."""
    nf = len(f)
    df = float(f[1])
    last = float(f[-1])
    vec = {}
    vec["grid"] = [float(x) for x in f]
    vec["mid"] = [(float(f[k]) + float(f[k + 1])) / 2.0 for k in range(nf - 1)]
    vec["off"] = [float(f[k]) + t * df for k in range(nf - 1) for t in (0.3, 0.7)]
    # same length and same first / last value as the vector before it, other interior values (a lookup
    # remembered from the previous call by size and end points would be reused wrongly)
    for base in ("grid", "mid"):
        v = list(vec[base])
        vec[base + "-warp"] = [v[0]] + [x + df * (0.1 + 0.2 * ((7 * k) % 4)) for k, x in enumerate(v[1:-1], 1)] + [v[-1]]
    vec["edge"] = [0.0, 0.4 * df, last, last + 0.6 * df, 2.0 * last, -df, -0.3 * df]
    vec["single"] = [float(f[nf // 2]) + 0.3 * df]
    allv = vec["grid"] + vec["mid"] + vec["off"] + vec["edge"]
    vec["all-reversed"] = allv[::-1]
    if op is not None:
        vec["window-ends"] = window_end_centres(f, op, bw)
    return vec


VECTOR_NAMES = ["grid", "grid-warp", "mid", "mid-warp", "off", "edge", "single", "all-reversed",
                "window-ends"]


def fc_class(f, fc):
    if fc < RK.F_MIN:
        return "fc-nonpositive"
    if fc < f[1]:
        return "below-first-bin"
    if fc > f[-1]:
        return "above-last-bin"
    if any(fc == x for x in f):
        return "on-grid"
    return "off-grid"


def spectrum_stack(f):
    """Rows: every unit impulse, then const 1, const 7.25, ramp, cubic, noise,
    2*ramp + 0.5*noise, const 1e-3.  All non-negative."""
    nf = len(f)
    u = f / f[-1]
    ones = np.ones(nf)
    ramp = 0.5 + 2.0 * u
    cubic = 2.0 - 3.0 * u + 4.0 * u * u - 1.5 * u * u * u
    noise = 1.5 + np.array(A.lcg_noise(nf, seed=4711))
    combo = 2.0 * ramp + 0.5 * noise
    S = np.vstack([np.eye(nf), ones, 7.25 * ones, ramp, cubic, noise, combo, 1e-3 * ones])
    names = {"const1": nf, "const7.25": nf + 1, "ramp": nf + 2, "cubic": nf + 3,
             "noise": nf + 4, "combo": nf + 5, "const1e-3": nf + 6}
    return np.ascontiguousarray(S, dtype=float), names


def integer_stack(nf):
    """Non-negative integer-valued rows (values < 2**11, so they and their doubles
    are exact in int32, int64, float32 and float64): three unit impulses, a constant,
    a ramp, two irregular count-like rows."""
    k = np.arange(nf, dtype=np.int64)
    eye = np.eye(nf, dtype=np.int64)
    rows = [eye[1], eye[nf // 2], eye[nf - 1], np.full(nf, 7, dtype=np.int64), 3 + 5 * k,
            (k * k * k + 2 * k * k + 11) % 97 + 1, 1000 + (k * 7919) % 1013]
    S = np.ascontiguousarray(np.vstack(rows), dtype=np.int64)
    assert S.min() >= 0 and 2 * S.max() < 2 ** 24
    return S


# ---------------------------------------------------------------------------
# executing the real code

def call(op, impl, f, S, fcs, bw, dtype="float64"):
    """Run the operator from the registry (impl 'compiled') or its interpreted
    source (impl 'interpreted': .py_func; for Savitzky-Golay the registry
    function with its inner compiled routine replaced by that routine's
    .py_func).  The spectrum is handed over as a C-contiguous array of ``dtype``.
    Returns the array or ('raised', type name, message)."""
    fn = SM.SMOOTHING_OPERATORS[op]
    S = np.ascontiguousarray(S, dtype=np.dtype(dtype))
    fcs = np.ascontiguousarray(fcs, dtype=float)
    try:
        with np.errstate(all="ignore"):
            if op == SG:
                if impl == "interpreted":
                    inner = SM._savitzky_and_golay
                    SM._savitzky_and_golay = inner.py_func
                    try:
                        return np.asarray(fn(f, S, fcs, bw))
                    finally:
                        SM._savitzky_and_golay = inner
                return np.asarray(fn(f, S, fcs, bw))
            if impl == "interpreted":
                fn = fn.py_func
            return np.asarray(fn(f, S, fcs, float(bw)))
    except Exception as e:          # noqa: BLE001 - judged by the caller
        return ("raised", type(e).__name__, str(e)[:300])


def _raised(x):
    return isinstance(x, tuple) and len(x) == 3 and x[0] == "raised"


def warm():
    f = grid(8, 0.01)
    S, _ = spectrum_stack(f)
    fcs = np.array([12.5, 30.0])
    Z = integer_stack(len(f))
    for op in OPS:
        call(op, "compiled", f, S, fcs, 5 if op == SG else 1.0)
        call(op, "compiled", f, S[:1], fcs[:1], 5 if op == SG else 1.0)
        for d in DTYPES:                    # one more compiled signature per spectrum dtype
            call(op, "compiled", f, Z, fcs, 5 if op == SG else 1.0, dtype=d)


# ---------------------------------------------------------------------------
# oracles

class Case:
    """One (operator, grid, bandwidth, centre vector).  ``root`` is the replayable
    root the case lives under, ``p`` the parameters of this case (the root itself,
    or one leg of a grid-sequence root)."""

    def __init__(self, root, p, vname, f, fcs, S, names, infos):
        self.root = root
        self.p = p
        self.op = p["op"]
        self.bw = p["bw"]
        self.vname = vname
        self.f = f
        self.fcs = fcs
        self.S = S
        self.names = names
        self.infos = infos
        self.nf = len(f)
        self.in_sequence = root.get("kind") == "grid-sequence"

    def detail(self, impl, c=None, **kw):
        d = dict(op=self.op, implementation=impl, n=self.p["n"], dt=self.p["dt"],
                 bandwidth=self.bw, fc_vector=self.vname,
                 frequencies=[float(x) for x in self.f],
                 how="spectrum = hvmc.checks.c02.spectrum_stack(frequencies)[0]; "
                     "SMOOTHING_OPERATORS[op](frequencies, spectrum, np.array(fcs), bandwidth)")
        if self.in_sequence:
            d["grid_sequence"] = self.root["grids"]
            d["leg"] = self.p["leg"]
            d["sequence_note"] = ("the grids of grid_sequence were smoothed one after the other "
                                  "in ONE process (all fc vectors, both implementations, in the "
                                  "order of hvmc.checks.c02.run_root); this is grid number leg+1. "
                                  "A failure that needs the earlier grid is state carried over "
                                  "between calls")
        if c is not None:
            d["fc_index"] = int(c)
            d["fc"] = float(self.fcs[c])
            d["fcs"] = ([float(x) for x in self.fcs] if len(self.fcs) <= 12 or "+" in self.vname
                        else "fc_vectors(frequencies, op, bandwidth)[fc_vector]")
        d.update(kw)
        return d

    def text(self, t):
        if self.in_sequence:
            return t + f" [grid {self.p['leg'] + 1} of a sequence of grids smoothed in one process]"
        return t


def _key(case, impl, cls, oracle):
    tag = case.op if impl == "compiled" else case.op + ".py_func"
    return f"C02:{tag}:{cls}:{oracle}"


def _in_set(value, admissible, rtol, atol=0.0):
    return any(abs(value - a) <= atol + rtol * abs(a) for a in admissible)


def judge(case, impl, out, ctx):
    """All claims that can be decided from one call on the full stack."""
    root, f, S, nf, infos = case.root, case.f, case.S, case.nf, case.infos
    nfc = len(case.fcs)
    reported = set()

    def report(cls, oracle, c, expected, observed, text, **kw):
        key = _key(case, impl, cls, oracle)
        if key in reported:                 # one written-out centre per key and case
            ctx.count("further_centres_same_key")
            return
        reported.add(key)
        ctx.violation(key, root, detail=case.detail(impl, c, **kw), expected=expected,
                      observed=observed, explanation=case.text(text))

    if out.shape != (S.shape[0], nfc) or not np.all(np.isfinite(out)):
        report(case.vname, "shape-or-nonfinite", None, [S.shape[0], nfc], list(out.shape),
               "output has the wrong shape or contains non-finite values")
        return None
    W = np.ascontiguousarray(out[:nf].T)            # recovered weight matrix W[fc, f]

    # (1) weight matrix against the reference kernels
    for c in range(nfc):
        info = infos[c]
        alts = info["alternatives"]
        row = W[c]
        ctx.count("matrix_rows_compared")
        if any(np.allclose(row, a, rtol=RTOL_REF, atol=ATOL_W) for a in alts):
            continue
        cls = fc_class(f, case.fcs[c])
        supp = set(np.nonzero(np.abs(row) > ATOL_W)[0].tolist())
        ref_supps = [set(i for i, v in enumerate(a) if abs(v) > ATOL_W) for a in alts]
        if row[0] != 0.0:
            kind, text = "matrix-dc", "the 0 Hz sample carries weight"
        elif all(not s for s in ref_supps):
            kind, text = "matrix-empty-window-nonzero", \
                "no sample lies inside the window (or fc < 1e-6) but the output is not zero"
        elif info["ends"] and any(s - supp and s - supp <= set(info["ends"]) and not supp - s
                                  for s in ref_supps):
            kind, text = "matrix-window-end-excluded", \
                ("a sample lying EXACTLY on an end of the window (tie exact in rational arithmetic "
                 "on the given doubles) was left out although the window is closed and every other "
                 "contributing sample was used")
        elif supp not in ref_supps:
            kind, text = "matrix-support", \
                "the set of contributing samples differs from the kernel's support"
        elif abs(math.fsum(row.tolist()) - 1.0) > 1e-9:
            kind, text = "matrix-normalisation", "the weights of this centre do not sum to one"
        else:
            kind, text = "matrix-weights", \
                "the normalised weights differ from the published kernel shape"
        report(cls, kind, c, dict(reference_row=alts[0], admissible_rows=len(alts)),
               row.tolist(), text + " (row of the weight matrix recovered from unit impulses)",
               certain=info["certain"], knife=info["knife"], exact_window_ends=info["ends"])

    # (2) constant spectra are reproduced exactly where the window is not empty
    for name in ("const1", "const7.25", "const1e-3"):
        r = case.names[name]
        cval = float(S[r, 1])
        for c in range(nfc):
            adm = {cval if any(v != 0.0 for v in a) else 0.0 for a in infos[c]["alternatives"]}
            ctx.count("constant_values_compared")
            if not _in_set(float(out[r, c]), adm, RTOL_IMPL):
                report(fc_class(f, case.fcs[c]), "constant", c, sorted(adm), float(out[r, c]),
                       f"a constant spectrum ({cval}) is not reproduced exactly where the window "
                       f"is non-empty / not zero where it is empty", spectrum_row=name)

    # (3) non-negative kernels: output between smallest and largest contributing sample
    if case.op in RK.NONNEGATIVE:
        for c in range(nfc):
            info = infos[c]
            idx = sorted(info["certain"] + info["knife"])
            if not idx:
                continue
            sub = S[:, idx]
            lo = sub.min(axis=1)
            hi = sub.max(axis=1)
            tol = 1e-12 * np.maximum(1.0, np.abs(hi))
            ok = (out[:, c] >= lo - tol) & (out[:, c] <= hi + tol)
            if not info["certain"]:
                ok |= (out[:, c] == 0.0)
            ctx.count("bounds_compared", int(S.shape[0]))
            if not ok.all():
                r = int(np.nonzero(~ok)[0][0])
                report(fc_class(f, case.fcs[c]), "bounds", c, [float(lo[r]), float(hi[r])],
                       float(out[r, c]),
                       "output lies outside [min, max] of the samples inside the window",
                       spectrum_row_index=r, contributing=idx)

    # (4) Savitzky-Golay reproduces polynomials up to degree three, 0 where the window does not fit
    if case.op == SG:
        for name in ("ramp", "cubic"):
            r = case.names[name]
            for c in range(nfc):
                info = infos[c]
                if not info["centre_bins"]:
                    adm = {0.0}
                else:
                    adm = {float(S[r, k]) if fit else 0.0
                           for k, fit in zip(info["centre_bins"], info["fits"])}
                ctx.count("cubic_values_compared")
                if not _in_set(float(out[r, c]), adm, RTOL_REF):
                    report(fc_class(f, case.fcs[c]), "cubic", c, sorted(adm), float(out[r, c]),
                           "Savitzky-Golay does not return the value of a cubic (or linear) "
                           "polynomial at the centre bin / is not zero where the window does not fit",
                           spectrum_row=name, centre_bins=info["centre_bins"], fits=info["fits"])

    # (5) linearity: superposition of the impulse responses, and an explicit pair
    extra = out[nf:]
    pred = S[nf:] @ out[:nf]
    atol = 1e-12 * np.abs(S[nf:]).max(axis=1, keepdims=True)
    bad = np.abs(extra - pred) > atol + RTOL_REF * np.abs(pred)
    ctx.count("linearity_values_compared", int(bad.size))
    if bad.any():
        r, c = [int(v[0]) for v in np.nonzero(bad)]
        report(fc_class(f, case.fcs[c]), "linearity", c, float(pred[r, c]), float(extra[r, c]),
               "smoothing a spectrum differs from the superposition of the smoothed unit impulses",
               spectrum_row_index=nf + r)
    a, b, z = (out[case.names[k]] for k in ("ramp", "noise", "combo"))
    pred = 2.0 * a + 0.5 * b
    bad = np.abs(z - pred) > 1e-12 + RTOL_REF * np.abs(pred)
    if bad.any():
        c = int(np.nonzero(bad)[0][0])
        report(fc_class(f, case.fcs[c]), "linearity", c, float(pred[c]), float(z[c]),
               "op(2x + 0.5y) != 2 op(x) + 0.5 op(y)")
    return W


def row_independence(case, impl, out, ctx, every_row):
    """Each row of the stacked call equals the call on that row alone / on a
    re-ordered sub-stack, bit for bit (same code, same arithmetic per row)."""
    S, names, nf = case.S, case.names, case.nf
    x, y, z, k, p = (names[n] for n in ("ramp", "noise", "combo", "const7.25", "cubic"))
    stacks = [[y], [x, y], [y, x], [x, y, z, k, p], [p, k, z, y, x]]
    if impl == "compiled":
        stacks.append(list(range(S.shape[0]))[::-1])
        if every_row:
            stacks += [[r] for r in range(S.shape[0])]
    else:
        stacks = [[y], [p, k, z, y, x]]
    for rows in stacks:
        sub = np.ascontiguousarray(S[rows])
        got = call(case.op, impl, case.f, sub, case.fcs, case.bw)
        ctx.count("transitions")
        ctx.count("stack_calls_compared")
        if _raised(got):
            ctx.violation(_key(case, impl, case.vname, "raises"), case.root,
                          detail=case.detail(impl, rows=rows), observed=list(got),
                          explanation=case.text("operator raised on a sub-stack of the spectra"))
            continue
        want = out[rows]
        if not core.bitwise_equal(np.ascontiguousarray(got), np.ascontiguousarray(want)):
            oracle = "row-independence" if len(rows) == 1 else "row-order"
            diff = np.nonzero(np.asarray(got) != want) if np.shape(got) == want.shape else ([0], [0])
            r, c = int(diff[0][0]), int(diff[1][0])
            ctx.violation(_key(case, impl, case.vname, oracle), case.root,
                          detail=case.detail(impl, c, rows=rows if len(rows) <= 8 else "all rows reversed",
                                             differing_row_in_substack=r),
                          expected=float(want[r, c]),
                          observed=float(got[r, c]) if np.shape(got) == want.shape else list(np.shape(got)),
                          explanation=case.text("a spectrum row smoothed inside a stack differs (bitwise) "
                                                "from the same row smoothed alone / in another row order"))


def dtype_family(case, impl, out, ctx):
    """Integer-valued spectra handed over as float64, int64, int32, float32.

    float64: equals the superposition of the impulse responses of the main call
    (which were compared with the reference matrix).  Other dtypes: the values
    are the same numbers, so the weight-normalised average is the same (rtol
    1e-12), and doubling the spectrum doubles the result in every dtype."""
    f, nf, fcs = case.f, case.nf, case.fcs
    Z = integer_stack(nf)
    Zf = Z.astype(float)
    zmax = float(Z.max())
    how = ("spectrum = hvmc.checks.c02.integer_stack(len(frequencies)).astype(spectrum_dtype) "
           "[times 2 for the doubled call]; SMOOTHING_OPERATORS[op](frequencies, spectrum, "
           "np.array(fcs), bandwidth)")

    def run(S, dtype, what):
        got = call(case.op, impl, f, S, fcs, case.bw, dtype=dtype)
        ctx.count("transitions")
        if _raised(got):
            ctx.violation(_key(case, impl, "spectrum-" + dtype, "raises"), case.root,
                          detail=case.detail(impl, spectrum_dtype=dtype, spectrum=what, how=how),
                          observed=list(got),
                          explanation=case.text(f"the operator raised on a non-negative integer-valued "
                                                f"spectrum of dtype {dtype}"))
            return None
        got = np.asarray(got)
        if got.shape != (Z.shape[0], len(fcs)) or not np.all(np.isfinite(got)):
            ctx.violation(_key(case, impl, "spectrum-" + dtype, "shape-or-nonfinite"), case.root,
                          detail=case.detail(impl, spectrum_dtype=dtype, spectrum=what, how=how),
                          expected=[Z.shape[0], len(fcs)], observed=list(got.shape),
                          explanation=case.text("output has the wrong shape or contains non-finite values"))
            return None
        return got.astype(float)

    def first_bad(got, want, rtol, atol):
        bad = np.abs(got - want) > atol + rtol * np.abs(want)
        if not bad.any():
            return None
        r, c = [int(v[0]) for v in np.nonzero(bad)]
        return r, c

    base = run(Z, "float64", "integer_stack")
    if base is None:
        return
    pred = Zf @ out[:nf]
    ctx.count("linearity_values_compared", int(pred.size))
    hit = first_bad(base, pred, RTOL_REF, 1e-12 * zmax)
    if hit:
        r, c = hit
        ctx.violation(_key(case, impl, fc_class(f, fcs[c]), "linearity"), case.root,
                      detail=case.detail(impl, c, spectrum_dtype="float64", spectrum_row_index=r, how=how),
                      expected=float(pred[r, c]), observed=float(base[r, c]),
                      explanation=case.text("smoothing a spectrum differs from the superposition of "
                                            "the smoothed unit impulses"))
    ctx.outcome(("Z", core.arr_digest(np.ascontiguousarray(base))))
    for dtype in ("float64",) + DTYPES:
        Zd = Z.astype(np.dtype(dtype))
        Z2 = (2 * Z).astype(np.dtype(dtype))
        if not (np.array_equal(Zd.astype(float), Zf) and np.array_equal(Z2.astype(float), 2.0 * Zf)):
            raise AssertionError("integer_stack is not exactly representable as " + dtype)
        got = base if dtype == "float64" else run(Zd, dtype, "integer_stack")
        if got is None:
            continue
        if dtype != "float64":
            ctx.count("dtype_values_compared", int(got.size))
            hit = first_bad(got, base, RTOL_IMPL, 1e-15 * zmax)
            if hit:
                r, c = hit
                ctx.violation(_key(case, impl, "spectrum-" + dtype, "dtype-invariance"), case.root,
                              detail=case.detail(impl, c, spectrum_dtype=dtype, spectrum_row_index=r,
                                                 spectrum_row=Z[r].tolist(), how=how),
                              expected=float(base[r, c]), observed=float(got[r, c]),
                              explanation=case.text(
                                  f"the same non-negative integer-valued spectrum gives a different "
                                  f"smoothed value when stored as {dtype} than when stored as float64 "
                                  f"(the result is not the weight-normalised average of the values)"))
        dbl = run(Z2, dtype, "2*integer_stack")
        if dbl is None:
            continue
        ctx.count("dtype_linearity_values_compared", int(dbl.size))
        hit = first_bad(dbl, 2.0 * got, RTOL_IMPL, 1e-15 * zmax)
        if hit:
            r, c = hit
            ctx.violation(_key(case, impl, "spectrum-" + dtype, "dtype-linearity"), case.root,
                          detail=case.detail(impl, c, spectrum_dtype=dtype, spectrum_row_index=r,
                                             spectrum_row=Z[r].tolist(), how=how),
                          expected=float(2.0 * got[r, c]), observed=float(dbl[r, c]),
                          explanation=case.text(f"op(2 s) != 2 op(s) for an integer-valued spectrum s "
                                                f"of dtype {dtype}"))


def run_case(root, p, vname, f, fcs, S, names, ctx, tier):
    op, bw = p["op"], p["bw"]
    fcs = np.array(fcs, dtype=float)
    infos = [RK.row_info(op, f, fc, bw, closed_ends=True) for fc in fcs]
    case = Case(root, p, vname, f, fcs, S, names, infos)
    ctx.count("states")

    # statistics that show which parts of the oracle this case exercises
    multi = 0
    for fc, info in zip(fcs, infos):
        a0 = info["alternatives"][0]
        nz = sum(1 for v in a0 if v != 0.0)
        if nz == 0:
            ctx.count("centres_empty_window")
        elif nz >= 2:
            multi += 1
            ctx.count("centres_averaging_2plus_samples")
        else:
            ctx.count("centres_single_sample")
        if len(info["alternatives"]) > 1 or info["knife"]:
            ctx.count("knife_edge")
        if info["dc_in_reach"]:
            ctx.count("centres_with_dc_in_reach")
        if op == SG and info["certain"]:
            ctx.count("sg_centres_window_fits")
        if info["ends"]:
            ctx.count("exact_window_end:" + op)
            if fc > f[-1] and len(f) - 1 in info["ends"]:
                ctx.count("exact_window_end_last_bin_centre_above_grid")
            if fc < f[1] and 1 in info["ends"]:
                ctx.count("exact_window_end_first_bin_centre_below_grid")
    if multi:
        seq = (str(root["grids"]), p["leg"]) if case.in_sequence else ()
        ctx.nontrivial_case((op, p["n"], p["dt"], bw, vname) + seq)

    outs = {}
    for impl in ("compiled", "interpreted"):
        out = call(op, impl, f, S, fcs, bw)
        ctx.count("transitions")
        if _raised(out):
            ctx.violation(_key(case, impl, vname, "raises"), root, detail=case.detail(impl),
                          observed=list(out),
                          explanation=case.text("the operator raised where the reference expects values"))
            continue
        W = judge(case, impl, out, ctx)
        if W is None:
            continue
        outs[impl] = out
        ctx.outcome(("W", core.arr_digest(W)))
        row_independence(case, impl, out, ctx,
                         every_row=(vname in ("grid", "off") or tier == "thorough"))
        dtype_family(case, impl, out, ctx)
        if impl == "compiled" and len(ctx.samples) < 2 and multi and vname == "off":
            c = next(i for i, info in enumerate(infos) if sum(1 for v in info["alternatives"][0] if v) >= 2)
            ctx.sample(dict(root=root, leg=p.get("leg"), fc_vector=vname, fc=float(fcs[c]),
                            recovered_row=W[c].tolist(), reference_row=infos[c]["alternatives"][0]))
    ctx.count("validated")

    # compiled == interpreted
    if len(outs) == 2:
        a, b = outs["compiled"], outs["interpreted"]
        bad = np.abs(a - b) > 1e-15 * np.abs(S).max() + RTOL_IMPL * np.abs(b)
        ctx.count("compiled_vs_interpreted_values", int(bad.size))
        ctx.notes["max_rel_diff_compiled_vs_interpreted"] = max(
            ctx.notes.get("max_rel_diff_compiled_vs_interpreted", 0.0),
            float(np.max(np.abs(a - b) / np.maximum(np.abs(b), 1e-300) * (b != 0))))
        if bad.any():
            r, c = [int(v[0]) for v in np.nonzero(bad)]
            ctx.violation(f"C02:{op}:{vname}:compiled-vs-interpreted", root,
                          detail=case.detail("both", c, spectrum_row_index=r),
                          expected=float(b[r, c]), observed=float(a[r, c]),
                          explanation=case.text("the compiled kernel and its interpreted source "
                                                "(.py_func) return different values"))


def run_call_size(root, ctx, tier):
    """How much is handed over in one call must not matter.

    One (grid, operator, bandwidth); centres = edge + grid + mid vectors (so 0 Hz is in
    reach of some windows, some windows are empty, some centres lie outside the grid).
    The ordinary stack (all unit impulses + 7 rows, DC amplitude non-zero in several rows)
    is smoothed once and judged completely against the reference (``judge``).  Then
      * the stack is repeated cyclically to R rows, R x bins just above every size of
        ENTRY_LADDER: row i of the result must be row i mod rows of the small call;
      * the centre vector is repeated cyclically to just above every length of
        CENTRE_LADDER: column j must be column j mod centres of the small call;
    bit for bit (the statement: every row is smoothed independently of the other rows;
    per row and centre the same arithmetic runs), compiled and interpreted."""
    op = root["op"]
    f = grid(root["n"], root["dt"])
    nf = len(f)
    bw = bandwidths(op, float(f[1]))[root["bw_index"]]
    p = dict(n=root["n"], dt=root["dt"], op=op, bw=bw, bw_index=root["bw_index"])
    S, names = spectrum_stack(f)
    nrows = S.shape[0]
    vecs = fc_vectors(f, op, bw)
    fcs = np.array(vecs["edge"] + vecs["grid"] + vecs["mid"], dtype=float)
    nfc = len(fcs)
    infos = [RK.row_info(op, f, fc, bw, closed_ends=True) for fc in fcs]
    case = Case(root, p, "edge+grid+mid", f, fcs, S, names, infos)
    ctx.count("states")
    if any(info["dc_in_reach"] for info in infos) and float(S[:, 0].max()) > 0.0:
        ctx.count("call_size_cases_with_dc_in_reach")
    ctx.nontrivial_case(("call-size", op, root["n"], root["dt"], bw))
    for impl in ("compiled", "interpreted"):
        out = call(op, impl, f, S, fcs, bw)
        ctx.count("transitions")
        if _raised(out):
            ctx.violation(_key(case, impl, case.vname, "raises"), root, detail=case.detail(impl),
                          observed=list(out),
                          explanation="the operator raised where the reference expects values")
            continue
        if judge(case, impl, out, ctx) is None:
            continue
        out = np.ascontiguousarray(out)
        out_bits = out.view(np.uint64)
        for size in ENTRY_LADDER[tier]:
            R = size // nf + 1                      # R * nf > size >= (R - 1) * nf
            big = np.ascontiguousarray(S[np.arange(R) % nrows])
            got = call(op, impl, f, big, fcs, bw)
            ctx.count("transitions")
            ctx.count("large_stack_calls_compared")
            ctx.notes["largest_stack_entries"] = max(ctx.notes.get("largest_stack_entries", 0), int(big.size))
            how = (f"S = spectrum_stack(frequencies)[0]; spectrum = S[np.arange({R}) % {nrows}] "
                   f"({R} rows x {nf} bins = {R * nf} entries > {size}); "
                   "SMOOTHING_OPERATORS[op](frequencies, spectrum, np.array(fcs), bandwidth)")
            if _raised(got) or np.shape(got) != (R, nfc):
                ctx.violation(_key(case, impl, "large-stack", "raises-or-shape"), root,
                              detail=case.detail(impl, rows=R, entries=R * nf, how=how),
                              expected=[R, nfc], observed=list(got) if _raised(got) else list(np.shape(got)),
                              explanation="the operator raised / returned another shape on a large stack")
                continue
            gb = np.ascontiguousarray(got, dtype=float).view(np.uint64)
            bad = None
            for r in range(nrows):
                d = gb[r::nrows] != out_bits[r]
                if d.any():
                    i, c = [int(v[0]) for v in np.nonzero(d)]
                    bad = (r + i * nrows, r, c)
                    break
            if bad:
                i, r, c = bad
                ctx.violation(_key(case, impl, fc_class(f, fcs[c]), "stack-size-dependence"), root,
                              detail=case.detail(impl, c, rows=R, entries=R * nf, row_in_large_stack=i,
                                                 same_row_in_small_stack=r, small_stack_rows=nrows, how=how),
                              expected=float(out[r, c]), observed=float(got[i, c]),
                              explanation="a spectrum row smoothed inside a large stack differs (bitwise) "
                                          "from the same row smoothed inside a small stack (whose result "
                                          "agrees with the reference): the result for a row depends on how "
                                          "many other rows are in the call")
        for size in CENTRE_LADDER[tier]:
            M = size + 1
            sel = np.arange(M) % nfc
            got = call(op, impl, f, S, fcs[sel], bw)
            ctx.count("transitions")
            ctx.count("long_centre_vector_calls_compared")
            how = (f"fcs = np.array(fcs)[np.arange({M}) % {nfc}]; spectrum = spectrum_stack(frequencies)[0]; "
                   "SMOOTHING_OPERATORS[op](frequencies, spectrum, fcs, bandwidth)")
            if _raised(got) or np.shape(got) != (nrows, M):
                ctx.violation(_key(case, impl, "long-centre-vector", "raises-or-shape"), root,
                              detail=case.detail(impl, centres=M, how=how),
                              expected=[nrows, M], observed=list(got) if _raised(got) else list(np.shape(got)),
                              explanation="the operator raised / returned another shape for a long "
                                          "centre-frequency vector")
                continue
            gb = np.ascontiguousarray(got, dtype=float).view(np.uint64)
            d = gb != out_bits[:, sel]
            if d.any():
                r, j = [int(v[0]) for v in np.nonzero(d)]
                c = int(sel[j])
                ctx.violation(_key(case, impl, fc_class(f, fcs[c]), "centre-count-dependence"), root,
                              detail=case.detail(impl, c, centres=M, column_in_long_vector=j,
                                                 spectrum_row_index=r, how=how),
                              expected=float(out[r, c]), observed=float(got[r, j]),
                              explanation="the value at a centre frequency differs (bitwise) between a long "
                                          "centre-frequency vector and a short one containing the same centre")
        ctx.outcome(("call-size", op, impl, core.arr_digest(out)))
    ctx.count("validated")


def run_refusal(root, p, vname, f, fcs, S, ctx):
    """Even Savitzky-Golay point counts must be refused with ValueError."""
    fcs = np.array(fcs, dtype=float)
    ctx.count("states")
    for impl in ("compiled", "interpreted"):
        out = call(SG, impl, f, S, fcs, p["bw"])
        ctx.count("transitions")
        tag = SG if impl == "compiled" else SG + ".py_func"
        det = dict(op=SG, implementation=impl, n=p["n"], dt=p["dt"], bandwidth=p["bw"],
                   fc_vector=vname)
        if root.get("kind") == "grid-sequence":
            det.update(grid_sequence=root["grids"], leg=p["leg"])
        if not _raised(out):
            ctx.violation(f"C02:{tag}:even-bandwidth:accepted", root, detail=det,
                          expected="ValueError", observed="returned an array",
                          explanation="an even number of Savitzky-Golay points was not refused")
            ctx.outcome(("even", "accepted"))
        elif out[1] != "ValueError":
            ctx.violation(f"C02:{tag}:even-bandwidth:wrong-exception", root, detail=det,
                          expected="ValueError", observed=list(out),
                          explanation="an even number of Savitzky-Golay points raised something "
                                      "other than ValueError")
        else:
            ctx.count("even_bandwidth_refused")
            ctx.outcome(("even", "ValueError"))
    try:
        RK.sg_weights(p["bw"])
    except ValueError:
        ctx.count("validated")


# ---------------------------------------------------------------------------
# runner interface

def roots(tier, seed):
    out = []
    for n, dt in GRIDS[tier]:
        df = float(grid(n, dt)[1])
        for op in OPS:
            for i, bw in enumerate(bandwidths(op, df)):
                out.append(dict(n=n, dt=dt, op=op, bw=bw, bw_index=i))
    # two grids one after the other inside one root (= one process), both orders
    for grids in SEQUENCES[tier]:
        for op in OPS:
            for i in range(len(bandwidths(op, 1.0))):
                out.append(dict(kind="grid-sequence", grids=grids, op=op, bw_index=i))
    # the amount handed over in one call (rows x bins, number of centres)
    for n, dt in SIZE_GRIDS[tier]:
        for op in OPS:
            for i, bw in enumerate(bandwidths(op, 1.0)):
                if op == SG and int(bw) % 2 == 0:
                    continue
                out.append(dict(kind="call-size", n=n, dt=dt, op=op, bw_index=i))
    return out


def _run_grid(root, p, ctx, tier):
    """The complete oracle for one (grid, operator, bandwidth)."""
    f = grid(p["n"], p["dt"])
    S, names = spectrum_stack(f)
    vecs = fc_vectors(f, p["op"], p["bw"])
    even = p["op"] == SG and int(p["bw"]) % 2 == 0
    for vname in VECTOR_NAMES:
        if even:
            run_refusal(root, p, vname, f, vecs[vname], S, ctx)
        else:
            run_case(root, p, vname, f, vecs[vname], S, names, ctx, tier)


def run_root(root, ctx, tier):
    if root.get("kind") == "call-size":
        run_call_size(root, ctx, tier)
    elif root.get("kind") == "grid-sequence":
        nfs = set()
        for leg, (n, dt) in enumerate(root["grids"]):
            f = grid(n, dt)
            nfs.add((len(f), float(f[0])))
            bw = bandwidths(root["op"], float(f[1]))[root["bw_index"]]
            p = dict(n=n, dt=dt, op=root["op"], bw=bw, bw_index=root["bw_index"], leg=leg)
            _run_grid(root, p, ctx, tier)
            ctx.count("sequence_legs")
        if len(nfs) == 1:
            ctx.count("sequences_same_size_and_first_bin")
    else:
        _run_grid(root, root, ctx, tier)


NONVACUITY = ["centres_empty_window", "centres_averaging_2plus_samples", "centres_single_sample",
              "knife_edge", "centres_with_dc_in_reach", "sg_centres_window_fits",
              "even_bandwidth_refused", "matrix_rows_compared", "constant_values_compared",
              "bounds_compared", "cubic_values_compared", "linearity_values_compared",
              "stack_calls_compared", "compiled_vs_interpreted_values",
              "dtype_values_compared", "dtype_linearity_values_compared",
              "sequence_legs", "sequences_same_size_and_first_bin",
              "exact_window_end:konno_and_ohmachi", "exact_window_end:linear_rectangular",
              "exact_window_end:log_rectangular", "exact_window_end_last_bin_centre_above_grid",
              "exact_window_end_first_bin_centre_below_grid",
              "large_stack_calls_compared", "long_centre_vector_calls_compared",
              "call_size_cases_with_dc_in_reach"]


def finalize(ctx, tier):
    for name in NONVACUITY:
        if ctx.counters.get(name, 0) == 0 and not ctx.violation_counts:
            ctx.violation(f"C02:harness:vacuous:{name}", None,
                          explanation=f"the enumeration never exercised '{name}'; the oracle "
                                      f"would be vacuous for that claim")


def describe(tier):
    g = GRIDS[tier]
    return dict(
        rule="full product of FFT grids rfftfreq(n, dt) x 7 operators x 3 bandwidths (+2 even "
             "Savitzky-Golay point counts that must be refused) = single-grid roots; under each root 6 "
             "centre-frequency vectors (every bin incl. 0 Hz, every midpoint, 0.3/0.7 points, "
             "edge set {0, below first bin, last bin, above last, 2x last, two negative}, a single "
             "centre, everything reversed) x {compiled, interpreted}; every call smooths all unit "
             "impulses + 7 further non-negative rows, and is repeated on 5-6 sub-stacks / row orders "
             "and (compiled) on every row alone.  Spectrum-dtype family: under every such case a stack "
             "of 7 non-negative integer-valued rows (3 impulses, constant, ramp, 2 irregular; all values "
             "and their doubles exact in every dtype) is smoothed as float64 (must equal the "
             "superposition of the impulse responses), as int64, int32 and float32 (must equal the "
             "float64 result) and doubled in each of the 4 dtypes (must equal twice the result).  "
             "Grid-sequence roots: for every listed pair of grids with equal bin count and 0 Hz first "
             "bin but different spacing (same n / other dt; n and n+1), both orders x 7 operators x all "
             "bandwidth indices: the complete oracle above is run for the first grid and then, in the "
             "same process, for the second.  A case (op, grid, bandwidth, vector[, sequence, leg]) is "
             "non-trivial if at least one centre averages >= 2 samples",
        bounds=dict(grids=[list(x) for x in g], operators=len(OPS), bandwidths_per_operator="3 (+1 with a half-width of exactly one decade for konno_and_ohmachi, "
                                           "log_rectangular, log_triangular)",
                    fc_vectors=len(VECTOR_NAMES), spectrum_rows="n//2+1 impulses + 7",
                    spectrum_dtypes=["float64"] + list(DTYPES), integer_rows=7,
                    grid_sequences=SEQUENCES[tier], grids_per_sequence=2),
        exhaustive=True,
        assumptions=[
            "supports are pinned to DESIGN C02: KO |log10 f/fc| <= 3/b, Parzen |f-fc| <= sqrt(6)a/b, "
            "rectangular/triangular +-b/2, Savitzky-Golay m bins around the nearest bin and only where the "
            "window fits above the 0 Hz bin; f < 1e-6 and fc < 1e-6 excluded",
            "a sample within 1e-9 (relative) of a support limit may be inside or outside - EXCEPT a sample "
            "exactly on the end of a konno_and_ohmachi / linear_rectangular / log_rectangular window (tie "
            "exact in rational arithmetic on the given doubles), which is inside because the pinned support "
            "is closed; a Savitzky-Golay centre within 1e-9 of the middle between two bins (the exact middle "
            "included: neither bin is nearer, the statement names no tie rule) may go to either bin: every "
            "admissible row is accepted (counted as knife_edge)",
            "exact window ends: IEEE subtraction / division of the tied doubles is exact; for the lower end "
            "of a log window the implementation's limit 10**-k is assumed to be the correctly rounded double "
            "(true of the libm in use; checked implicitly - otherwise the unchanged tree would be reported)",
            "weights are compared with rtol 1e-9 plus 1e-13 absolute on row-normalised weights; "
            "compiled vs interpreted with rtol 1e-12 plus 1e-15 absolute",
            "row independence is judged bit for bit (same code path, element-wise arithmetic per row)",
            "a spectrum is the array of its values: an integer-valued non-negative spectrum stored as "
            "int64, int32 or float32 must give the float64 result to rtol 1e-12 (the dtype of the returned "
            "array itself is not judged); only C-contiguous 2-D spectra and float64 frequencies / centre "
            "frequencies are passed; values stay below 2**12 so no integer overflow is provoked",
            "hidden state between calls is explored for sequences of exactly two grids inside one root; "
            "warm() smooths rfftfreq(8, 0.01) once in the parent before the workers fork, and a worker "
            "process may have explored other roots before, so a sequence root is 'these two grids in this "
            "order after an arbitrary earlier history' - on a stateless module the history is irrelevant; "
            "state keyed by (bin count, first bin) cannot be right for both legs whatever came before; "
            "state that needs three or more grids, or another key collision, is outside the bound",
        ])


_describe_base = describe


def describe(tier):     # noqa: F811 - the base description plus what later rounds added to the space
    d = _describe_base(tier)
    d["rule"] = d["rule"] + " " + 'The centre vectors grid-warp and mid-warp have the same length and the same first / last value as the vector evaluated before them and other interior values.'
    d["rule"] += (" Window ends: a ninth centre vector per (operator, bandwidth) puts every bin k >= 1 on the lower "
                  "and on the upper END of a window (fc = f_k +- b/2 resp. f_k 10^(+-half-width); for the last bin "
                  "the centre lies above the grid, for the first bin below it; Savitzky-Golay: the bins where the "
                  "window starts / stops fitting); konno_and_ohmachi, log_rectangular and log_triangular get a "
                  "fourth bandwidth whose half-width is exactly one decade (b = 3 resp. 2), so that with the "
                  "3.0-bin bandwidth of the linear kernels every windowed operator meets EXACT ties; a sample "
                  "exactly on a window end must contribute (oracle matrix-window-end-excluded). "
                  "Call-size roots: grid x operator x every (odd) bandwidth, centres edge + grid + mid: the "
                  "ordinary stack is judged completely, then repeated cyclically to R rows with R x bins just "
                  "above every size of entry_ladder (row i must equal row i mod rows of the small call, bit for "
                  "bit: oracle stack-size-dependence) and the centre vector is repeated cyclically to just above "
                  "every length of centre_ladder (oracle centre-count-dependence); compiled and interpreted.")
    d["bounds"].update(call_size_grids=[list(g) for g in SIZE_GRIDS[tier]],
                       entry_ladder=ENTRY_LADDER[tier], centre_ladder=CENTRE_LADDER[tier])
    d["assumptions"].append(
        "call size: only sizes just above the listed powers of two / ten are entered (largest: "
        f"{max(ENTRY_LADDER[tier])} spectrum entries, {max(CENTRE_LADDER[tier])} centres), on grids of 5-9 bins; "
        "a dependence on the size of the call that sets in above the largest size, only inside a band "
        "between two ladder steps, or only for long frequency grids is outside the bound")
    return d
