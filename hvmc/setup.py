"""setup_cmd: create the cache directories, check that hvsrpy is imported from
/repo, and compile the numba kernels once into the harness-owned cache.
Nothing is downloaded or installed."""
import os
import sys


def main():
    from hvmc import run
    run._prepare_environment()
    import numpy as np
    import hvsrpy
    src = os.path.dirname(os.path.abspath(hvsrpy.__file__))
    print("hvsrpy from", src)
    if not src.startswith("/repo"):
        print("hvsrpy is not imported from /repo", file=sys.stderr)
        return 1
    from hvsrpy.smoothing import SMOOTHING_OPERATORS
    f = np.fft.rfftfreq(16, 0.01)
    for name, op in SMOOTHING_OPERATORS.items():
        bw = 5 if name == "savitzky_and_golay" else 1.0
        for rows in (1, 2):
            op(f, np.ones((rows, len(f))), np.array([5.0, 10.0]), bw)
    print("numba cache:", os.environ.get("NUMBA_CACHE_DIR"))
    return 0


if __name__ == "__main__":
    # _prepare_environment re-execs `-m hvmc.run`; avoid that here.
    os.environ["HVMC_REEXEC"] = "1"
    sys.exit(main())
