"""Shared finite alphabets: frequency grids, curve shapes, curve sets, signals.

Everything is deterministic and built from small rationals so that threshold
comparisons in the oracles are rarely knife-edge.
"""
import itertools
import math

import numpy as np

# ---------------------------------------------------------------------------
# frequency grids


def lin_grid(F, f0=1.0, df=1.0):
    return [f0 + df * i for i in range(F)]


def geo_grid(F, f0=0.5, ratio=1.5):
    return [f0 * ratio ** i for i in range(F)]


def fine_grid(F, f0=1.0, df=0.002):
    """Closely spaced linear grid: every standard deviation in Hz is < 0.01."""
    return [f0 + df * i for i in range(F)]


def same_ends_grid(F):
    """Geometric grid with the same length, first and last sample as lin_grid(F)
    (1 .. F Hz) but different interior samples."""
    r = float(F) ** (1.0 / (F - 1))
    g = [r ** i for i in range(F)]
    g[0], g[-1] = 1.0, float(F)
    return g


GRIDS = {"lin": lin_grid, "geo": geo_grid, "fine": fine_grid, "same": same_ends_grid}

# ---------------------------------------------------------------------------
# curve shapes on F samples (amplitudes strictly positive)


def shape(name, F):
    """Return the list of F amplitudes of the named shape."""
    if name.startswith("p") and name[1:].isdigit():           # single peak at index p
        p = int(name[1:])
        return [1.0 + max(0.0, 3.0 - 1.25 * abs(i - p)) for i in range(F)]
    if name.startswith("q") and name[1:].isdigit():           # low single peak at index p
        p = int(name[1:])
        return [1.0 + max(0.0, 1.0 - 0.5 * abs(i - p)) for i in range(F)]
    if name == "tie":                                         # two equal peaks
        y = [1.0] * F
        y[1] = 3.0
        y[F - 3] = 3.0
        return y
    if name == "twopk":                                       # high peak then lower peak
        y = [1.0] * F
        y[2] = 4.0
        y[F - 2] = 3.0
        y[1] = 2.0
        return y
    if name == "twopk_r":                                     # lower peak then high peak
        y = [1.0] * F
        y[1] = 3.0
        y[F - 2] = 4.0
        return y
    if name == "plateau":                                     # flat-topped peak
        y = [1.0] * F
        y[2] = y[3] = 4.0
        y[1] = 2.0
        y[4] = 2.0
        return y
    if name == "up":
        return [1.0 + 0.5 * i for i in range(F)]
    if name == "down":
        return [1.0 + 0.5 * (F - 1 - i) for i in range(F)]
    if name == "steep_up":
        return [1.0 * 3.0 ** i for i in range(F)]
    if name == "flat":
        return [2.0] * F
    if name == "dead":                                        # zero amplitude away from a single peak
        y = [0.0] * F
        y[F // 2 - 1], y[F // 2], y[F // 2 + 1] = 1.0, 3.0, 1.0
        return y
    if name == "edge_lo":                                     # maximum at first sample
        return [5.0] + [1.0 + 0.25 * i for i in range(F - 1)][::-1][:F - 1]
    raise KeyError(name)


def curve_set(shapes, F, scale_step=0.125):
    """Rows = shapes, window w scaled by (1 + scale_step*w) so that amplitude
    statistics are non-degenerate (factors are dyadic, hence exact)."""
    return [[v * (1.0 + scale_step * w) for v in shape(s, F)] for w, s in enumerate(shapes)]


FULL_SHAPES_7 = ["p1", "p2", "p3", "p4", "p5", "q3", "tie", "twopk", "twopk_r",
                 "plateau", "up", "down", "flat"]
REDUCED_SHAPES = ["p2", "p4", "twopk", "up", "flat"]


def curve_set_roots(W_list, F, shapes, grids=("lin",)):
    """All products of ``shapes`` over W windows for W in W_list."""
    out = []
    for g in grids:
        for W in W_list:
            for combo in itertools.product(shapes, repeat=W):
                out.append(dict(grid=g, F=F, shapes=list(combo)))
    return out


def all_curves(length, values):
    """Every curve of the given length over the value set."""
    return [list(c) for c in itertools.product(values, repeat=length)]


# ---------------------------------------------------------------------------
# time-domain signals

def lcg_noise(n, seed=12345):
    """Deterministic 'noise' in (-1, 1) from a linear congruential generator."""
    out = []
    x = seed
    for _ in range(n):
        x = (1103515245 * x + 12345) % (2 ** 31)
        out.append(x / 2 ** 30 - 1.0)
    return out


def signal(name, L):
    if name == "impulse0":
        y = [0.0] * L
        y[0] = 1.0
        return y
    if name == "impulse_mid":
        y = [0.0] * L
        y[L // 2] = 1.0
        return y
    if name == "ramp":
        return [(i + 1) / L for i in range(L)]
    if name == "alt":
        return [1.0 if i % 2 == 0 else -1.0 for i in range(L)]
    if name == "two_sines":
        return [math.sin(2 * math.pi * 2 * i / L) + 0.5 * math.cos(2 * math.pi * 3 * i / L)
                for i in range(L)]
    if name == "offgrid_sine":
        return [math.sin(2 * math.pi * 2.37 * i / L + 0.3) for i in range(L)]
    if name.startswith("noise"):
        seed = int(name[5:] or 1)
        return lcg_noise(L, seed=1000 + 77 * seed)
    raise KeyError(name)


SIGNAL_NAMES = ["impulse0", "impulse_mid", "ramp", "alt", "two_sines", "offgrid_sine",
                "noise1", "noise2", "noise3"]


def sig_array(name, L, scale=1.0):
    return np.array(signal(name, L), dtype=float) * scale
