"""Closed forms of the ways hvsrpy combines the two horizontals."""
import math

import numpy as np

CANONICAL = {
    "arithmetic_mean": "arithmetic_mean",
    "squared_average": "squared_average",
    "quadratic_mean": "squared_average",
    "root_mean_square": "squared_average",
    "effective_amplitude_spectrum": "squared_average",
    "geometric_mean": "geometric_mean",
    "total_horizontal_energy": "total_horizontal_energy",
    "vector_summation": "total_horizontal_energy",
    "maximum_horizontal_value": "maximum_horizontal_value",
    "single_azimuth": "single_azimuth",
    "directional_energy": "single_azimuth",
}


def combine(method, a, b):
    """Combine two non-negative amplitude spectra (arrays or scalars)."""
    m = CANONICAL[method]
    a = np.asarray(a, dtype=float)
    b = np.asarray(b, dtype=float)
    if m == "arithmetic_mean":
        return (a + b) / 2
    if m == "squared_average":
        return np.sqrt((a * a + b * b) / 2)
    if m == "geometric_mean":
        return np.sqrt(a * b)
    if m == "total_horizontal_energy":
        return np.sqrt(a * a + b * b)
    if m == "maximum_horizontal_value":
        return np.maximum(a, b)
    raise KeyError(method)


def project(ns, ew, azimuth_deg):
    """Time-domain projection on an azimuth measured clockwise from north."""
    t = math.radians(azimuth_deg)
    return np.asarray(ns, dtype=float) * math.cos(t) + np.asarray(ew, dtype=float) * math.sin(t)


def percentile(rows, p):
    """p-th percentile over axis 0 by linear interpolation of order statistics."""
    rows = np.sort(np.asarray(rows, dtype=float), axis=0)
    m = rows.shape[0]
    pos = (m - 1) * p / 100.0
    lo = int(math.floor(pos))
    hi = min(lo + 1, m - 1)
    t = pos - lo
    return rows[lo] * (1 - t) + rows[hi] * t
