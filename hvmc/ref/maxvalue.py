"""Reference for maximum-value window rejection (no hvsrpy).

keep a window  iff  its largest |sample| over the examined components
(divided by the overall largest over all windows when normalised) is strictly
below the threshold.  A value within 1e-9 (relative) of the threshold is a
tie: not decided.

"The overall largest" is read both ways the text allows - over the examined
components of all windows, and over all three components of all windows; if
the two readings decide a window differently it is not decided.
"""
KNIFE = 1e-9
ALL_COMPONENTS = ("ns", "ew", "vt")


def largest_abs(x):
    """Largest absolute sample of a sequence, by a plain loop."""
    m = 0.0
    for v in x:
        a = abs(float(v))
        if a > m:
            m = a
    return m


def component_maxima(window):
    """window: dict component -> samples; returns dict component -> largest |sample|."""
    return {c: largest_abs(window[c]) for c in ALL_COMPONENTS}


def _decide(value, threshold):
    scale = max(abs(value), abs(threshold))
    if abs(value - threshold) <= KNIFE * scale:
        return None
    return value < threshold


def decisions(maxima, components, threshold, normalized):
    """maxima: one ``component_maxima`` dict per window (original order).

    Returns True (keep) / False (reject) / None (tie, or the two readings of
    "overall largest" disagree) per window.
    """
    examined = [max(m[c] for c in components) for m in maxima]
    if not normalized:
        return [_decide(v, threshold) for v in examined]
    denominators = {max(examined),
                    max(max(m[c] for c in ALL_COMPONENTS) for m in maxima)}
    out = []
    for v in examined:
        ds = {_decide(v / d, threshold) for d in denominators}
        out.append(ds.pop() if len(ds) == 1 else None)
    return out
