"""Reference model of an hvsrpy settings object: a plain dict of JSON-normalised values.

A settings object is modelled as ``(class name, {attribute: value})`` where every
value is made of ``None``, ``bool``, ``int``, ``float``, ``str``, ``list`` and
``dict`` only - tuples, lists and arrays are all the list of their elements, so
"equal in content, sequences compared element by element" is plain ``==`` on
the normalised form.  The documented constructor defaults of the eight public
classes are written out here from the class docstrings / signatures.

No hvsrpy import; numpy is not needed (arrays are recognised by ``tolist``).
"""
import copy
import json
import math

PRE = ["hvsrpy_version", "orient_to_degrees_from_north", "filter_corner_frequencies_in_hz",
       "window_length_in_seconds", "detrend", "ignore_dissimilar_time_step_warning"]
PROC = ["hvsrpy_version", "window_type_and_width", "smoothing", "fft_settings",
        "handle_dissimilar_time_steps_by"]

ATTRS = {
    "HvsrPreProcessingSettings": PRE + ["preprocessing_method"],
    "PsdPreProcessingSettings": PRE + ["window_type_and_width", "fft_settings",
                                       "instrument_transfer_function", "differentiate",
                                       "preprocessing_method"],
    "PsdProcessingSettings": PROC + ["processing_method"],
    "HvsrTraditionalProcessingSettings": PROC + ["processing_method", "method_to_combine_horizontals"],
    "HvsrTraditionalSingleAzimuthProcessingSettings":
        PROC + ["processing_method", "method_to_combine_horizontals", "azimuth_in_degrees"],
    "HvsrTraditionalRotDppProcessingSettings":
        PROC + ["processing_method", "method_to_combine_horizontals",
                "ppth_percentile_for_rotdpp_computation", "azimuths_in_degrees"],
    "HvsrAzimuthalProcessingSettings": PROC + ["processing_method", "azimuths_in_degrees"],
    "HvsrDiffuseFieldProcessingSettings": PROC + ["processing_method"],
}
CLASSES = list(ATTRS)


def geomspace(a, b, n):
    """n points from a to b, equally spaced in log (documented default centre frequencies)."""
    la, lb = math.log10(a), math.log10(b)
    out = [10.0 ** (la + (lb - la) * i / (n - 1)) for i in range(n)]
    out[0], out[-1] = float(a), float(b)
    return out


def defaults(cls, version):
    """Documented default content of class ``cls`` (normalised)."""
    d = {"hvsrpy_version": version}
    if cls in ("HvsrPreProcessingSettings", "PsdPreProcessingSettings"):
        d.update(orient_to_degrees_from_north=0.0,
                 filter_corner_frequencies_in_hz=[None, None],
                 window_length_in_seconds=60.0,
                 detrend="linear",
                 ignore_dissimilar_time_step_warning=False)
        if cls == "PsdPreProcessingSettings":
            d.update(window_type_and_width=["tukey", 0.1], fft_settings=None,
                     instrument_transfer_function=None, differentiate=False,
                     preprocessing_method="psd")
        else:
            d.update(preprocessing_method="hvsr")
    else:
        d.update(window_type_and_width=["tukey", 0.1],
                 smoothing=dict(operator="konno_and_ohmachi", bandwidth=40,
                                center_frequencies_in_hz=geomspace(0.1, 50, 200)),
                 fft_settings=None,
                 handle_dissimilar_time_steps_by="frequency_domain_resampling")
        if cls == "PsdProcessingSettings":
            d.update(handle_dissimilar_time_steps_by="keeping_majority_time_step",
                     processing_method="psd")
        elif cls == "HvsrTraditionalProcessingSettings":
            d.update(processing_method="traditional", method_to_combine_horizontals="geometric_mean")
        elif cls == "HvsrTraditionalSingleAzimuthProcessingSettings":
            d.update(processing_method="traditional", method_to_combine_horizontals="single_azimuth",
                     azimuth_in_degrees=20.0)
        elif cls == "HvsrTraditionalRotDppProcessingSettings":
            d.update(processing_method="traditional", method_to_combine_horizontals="rotdpp",
                     ppth_percentile_for_rotdpp_computation=50.0,
                     azimuths_in_degrees=list(range(0, 180, 5)))
        elif cls == "HvsrAzimuthalProcessingSettings":
            d.update(processing_method="azimuthal", azimuths_in_degrees=list(range(0, 180, 5)))
        elif cls == "HvsrDiffuseFieldProcessingSettings":
            d.update(handle_dissimilar_time_steps_by="keeping_majority_time_step",
                     processing_method="diffuse_field")
        else:
            raise KeyError(cls)
    return {k: d[k] for k in ATTRS[cls]}


def normalise(v):
    """Tuples, lists, arrays -> list of normalised elements; numpy scalars -> Python scalars."""
    if isinstance(v, dict):
        return {str(k): normalise(x) for k, x in v.items()}
    if isinstance(v, (list, tuple)):
        return [normalise(x) for x in v]
    if hasattr(v, "tolist") and callable(v.tolist):      # ndarray or numpy scalar
        if getattr(getattr(v, "dtype", None), "kind", "O") in "biuf":
            return v.tolist()                            # numeric: already plain Python scalars
        return normalise(v.tolist())
    if v is None or isinstance(v, (bool, int, float, str)):
        return v
    return ("unserialisable", type(v).__name__)


def new(cls, version):
    return [cls, defaults(cls, version)]


def set_attr(m, attr, value):
    m[1][attr] = normalise(value)


def mutate(m, path, value):
    """In-place element assignment along ``path`` (attribute name first)."""
    tgt = m[1]
    for p in path[:-1]:
        tgt = tgt[p]
    tgt[path[-1]] = normalise(value)


def through_file(m):
    """What a JSON file holding this object's content gives back."""
    return [m[0], json.loads(json.dumps(m[1]))]


def load_into(m, filem):
    """Loading a file assigns every stored attribute."""
    for k, v in filem[1].items():
        m[1][k] = copy.deepcopy(v)


def equal(a, b):
    """Content equality of two normalised values; floats by value (approximately for
    the documented geometric spacing is NOT wanted here: exact)."""
    return a == b


def diff(a, b):
    """Names of the attributes in which two normalised attribute dicts differ."""
    return [k for k in list(a) + [k for k in b if k not in a]
            if k not in a or k not in b or a[k] != b[k]]
