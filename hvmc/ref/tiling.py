"""Exact-rational reference for splitting a record into windows (property C10).

A record has N samples 0..N-1 taken ``1/rate`` seconds apart, ``rate`` an
integer number of samples per second.  A requested window length is given as a
*decimal string* (e.g. "2.56") so that it is an exact rational; nothing here
ever touches a binary floating-point quotient.

    k = floor(Fraction(window) * rate)        whole sample intervals per window

(an exact multiple of the time step therefore counts in full by construction).
Window j covers the samples j*k .. j*k+k (k+1 samples, both ends included), so
consecutive windows share exactly their boundary sample.  Window j is *full*
when j*k + k <= N-1.  After the last full window r = (N-1) - n_full*k samples
remain (0 <= r < k).  If r == k-1 those samples together with the boundary
sample form a window that is one sample short and ends with the record; the
property text allows, but does not demand, that it is returned.  If not even
that fits (N < k) the window is longer than the record and splitting must be
refused; for N == k both refusing and returning the single short window are
consistent with the text.

Only ``math`` and ``fractions`` are used.
"""
import math
from fractions import Fraction


def intervals(window, rate):
    """Whole sample intervals in a window of ``window`` seconds at ``rate`` Hz."""
    return math.floor(Fraction(window) * Fraction(rate))


def is_exact_multiple(window, rate):
    return (Fraction(window) * Fraction(rate)).denominator == 1


def n_full(n_samples, k):
    """Number of full windows (k+1 samples each) in a record of n_samples."""
    if k < 1:
        raise ValueError("a window must hold at least one sample interval")
    if n_samples < k + 1:
        return 0
    return (n_samples - 1) // k


def expectation(n_samples, k):
    """What a correct split of n_samples samples into k-interval windows may do.

    Returns a dict with
      must_raise  - no window, not even a one-short one, fits  (N < k)
      may_raise   - refusing is consistent with the text       (N <= k)
      layouts     - list of admissible layouts; a layout is a list of
                    (first sample, number of samples) per window
    """
    full = n_full(n_samples, k)
    base = [(j * k, k + 1) for j in range(full)]
    layouts = []
    if full >= 1:
        layouts.append(base)
    rest = (n_samples - 1) - full * k if n_samples >= 1 else -1
    if rest == k - 1 and n_samples >= k:
        layouts.append(base + [(full * k, k)])
    return dict(k=k, n_full=full, must_raise=n_samples < k, may_raise=n_samples <= k,
                layouts=layouts)


def judge_layout(layout, n_samples, k):
    """Problems of an observed layout [(first sample, number of samples), ...].

    Returns a list of (tag, text); empty when the layout satisfies every
    clause of the property for k intervals per window.
    """
    out = []
    m = len(layout)
    if m == 0:
        return [("empty", "no window was returned")]
    for j, (s, n) in enumerate(layout):
        if s != j * k:
            out.append(("start", f"window {j} starts on sample {s}, not on {j}*{k} = {j * k}"))
            break
    for j, (s, n) in enumerate(layout):
        if n == k + 1:
            continue
        if j == m - 1 and n == k and s + n == n_samples:
            continue            # final window, ends with the record, one short
        out.append(("span", f"window {j} spans {n} samples (first sample {s}); expected {k + 1}"
                            + (f", or {k} for a final window ending on sample {n_samples - 1}"
                               if j == m - 1 else "")))
        break
    for j in range(m - 1):
        (s0, n0), (s1, _) = layout[j], layout[j + 1]
        if s1 != s0 + n0 - 1:
            out.append(("boundary", f"window {j} ends on sample {s0 + n0 - 1} but window {j + 1} "
                                    f"starts on sample {s1}; they must share exactly one sample"))
            break
    s, n = layout[-1]
    last = s + n - 1
    if last > n_samples - 1:
        out.append(("beyond", f"last window ends on sample {last} beyond the record's last sample "
                              f"{n_samples - 1}"))
    tail = (n_samples - 1) - last
    if tail >= k:
        out.append(("tail", f"{tail} samples after the last window are discarded although a whole "
                            f"window of {k} intervals fits"))
    return out


def consistent_k(layout, n_samples, near=None):
    """The k' (if any) for which the observed layout is a faultless tiling.

    A single window of n0 samples may be a full window (k' = n0-1) or a final
    one-short window (k' = n0); of two fitting values the one nearest to
    ``near`` is returned.
    """
    if not layout:
        return None
    n0 = layout[0][1]
    fits = [kk for kk in (n0 - 1, n0) if kk >= 1 and not judge_layout(layout, n_samples, kk)]
    if not fits:
        return None
    if near is None:
        return fits[0]
    return min(fits, key=lambda kk: abs(kk - near))
