"""Tukey (tapered cosine) window written from its definition.

    r = alpha * (M - 1) / 2                      (length of one cosine lobe, in samples)
    w[j] = 0.5 * (1 + cos(pi * (j / r - 1)))     for 0 <= j < r
    w[j] = 1                                      for r <= j <= (M - 1) - r
    w[j] = w[M - 1 - j]                           (symmetric)

alpha <= 0 is the rectangular window, alpha >= 1 the Hann window
0.5 - 0.5 cos(2 pi j / (M - 1)); M == 1 gives [1].  This is the symmetric
window of scipy.signal.windows.tukey(M, alpha) (checked numerically once in a
scratch script: max abs difference 5.3e-15 over M = 1..130 and 13 widths, the
largest on scipy's falling lobe, which it evaluates with a large cancelling
argument); the reference deliberately does not import scipy.
"""
import math


def tukey(M, alpha):
    """Return the M samples of the Tukey window as a list of floats."""
    M = int(M)
    if M < 1:
        return []
    if M == 1:
        return [1.0]
    if alpha <= 0:
        return [1.0] * M
    if alpha >= 1:
        return [0.5 - 0.5 * math.cos(2.0 * math.pi * j / (M - 1)) for j in range(M)]
    r = alpha * (M - 1) / 2.0
    w = []
    for j in range(M):
        d = min(j, M - 1 - j)           # distance to the nearer end
        if d < r:
            w.append(0.5 * (1.0 + math.cos(math.pi * (d / r - 1.0))))
        else:
            w.append(1.0)
    return w


def mean_square(w):
    """mean(w**2) - the Welch window scaling factor."""
    return math.fsum(v * v for v in w) / len(w)
