"""Textbook estimators, written with math.fsum; no hvsrpy, no numpy statistics.

Values are plain Python sequences of floats.  'lognormal' means: take logs,
apply the normal-theory estimator, report the mean as exp(mean of logs) (the
median) and the standard deviation in log units.
"""
import math

LOGNORMAL = ("lognormal", "log-normal")


def _pre(values, distribution):
    if distribution in LOGNORMAL:
        return [math.log(v) for v in values]
    if distribution == "normal":
        return [float(v) for v in values]
    raise ValueError(distribution)


def mean(values, distribution):
    x = _pre(values, distribution)
    m = math.fsum(x) / len(x)
    return math.exp(m) if distribution in LOGNORMAL else m


def std(values, distribution):
    """Sample standard deviation, n-1 denominator (log units for lognormal)."""
    x = _pre(values, distribution)
    n = len(x)
    if n < 2:
        return float("nan")
    m = math.fsum(x) / n
    return math.sqrt(math.fsum((v - m) ** 2 for v in x) / (n - 1))


def nth_std(n, values, distribution):
    m = mean(values, distribution)
    s = std(values, distribution)
    if distribution in LOGNORMAL:
        return math.exp(math.log(m) + n * s)
    return m + n * s


def cov(xs, ys, distribution):
    """2x2 sample covariance matrix (n-1 denominator)."""
    x = _pre(xs, distribution)
    y = _pre(ys, distribution)
    n = len(x)
    mx = math.fsum(x) / n
    my = math.fsum(y) / n
    cxx = math.fsum((a - mx) ** 2 for a in x) / (n - 1)
    cyy = math.fsum((b - my) ** 2 for b in y) / (n - 1)
    cxy = math.fsum((a - mx) * (b - my) for a, b in zip(x, y)) / (n - 1)
    return [[cxx, cxy], [cxy, cyy]]


def mean_curve(rows, distribution):
    return [mean([r[j] for r in rows], distribution) for j in range(len(rows[0]))]


def std_curve(rows, distribution):
    return [std([r[j] for r in rows], distribution) for j in range(len(rows[0]))]


def nth_std_curve(n, rows, distribution):
    return [nth_std(n, [r[j] for r in rows], distribution) for j in range(len(rows[0]))]


# ---- weighted (Cheng et al. 2020) -----------------------------------------

def wmean(values, weights, distribution):
    x = _pre(values, distribution)
    sw = math.fsum(weights)
    m = math.fsum(w * v for w, v in zip(weights, x)) / sw
    return math.exp(m) if distribution in LOGNORMAL else m


def wstd(values, weights, distribution):
    """sqrt( sum w (x-mu)^2 / (1 - sum w^2) ), weights summing to one."""
    x = _pre(values, distribution)
    sw = math.fsum(weights)
    m = math.fsum(w * v for w, v in zip(weights, x)) / sw
    num = math.fsum(w * (v - m) ** 2 for w, v in zip(weights, x))
    den = 1 - math.fsum(w * w for w in weights)
    if den <= 0:
        return float("nan")
    return math.sqrt(num / den)


def wnth_std(n, values, weights, distribution):
    m = wmean(values, weights, distribution)
    s = wstd(values, weights, distribution)
    if distribution in LOGNORMAL:
        return math.exp(math.log(m) + n * s)
    return m + n * s


def wcov(xs, ys, weights, distribution):
    x = _pre(xs, distribution)
    y = _pre(ys, distribution)
    sw = math.fsum(weights)
    w = [v / sw for v in weights]
    mx = math.fsum(a * b for a, b in zip(w, x))
    my = math.fsum(a * b for a, b in zip(w, y))
    den = 1 - math.fsum(a * a for a in w)
    cxx = math.fsum(a * (b - mx) ** 2 for a, b in zip(w, x)) / den
    cyy = math.fsum(a * (b - my) ** 2 for a, b in zip(w, y)) / den
    cxy = math.fsum(a * (b - mx) * (c - my) for a, b, c in zip(w, x, y)) / den
    return [[cxx, cxy], [cxy, cyy]]
