"""Reference for "trim(start, end) keeps the samples nearest(start)..nearest(end)".

Exact arithmetic only: a float is a dyadic rational, so the time step, the
requested times and the sample times i*dt are put on one common power-of-two
denominator and compared as Python integers.  The nearest sample is found by
the definition (smallest |i*dt - t| over every sample i), not by rounding.

No hvsrpy, no numpy.
"""
from fractions import Fraction

GUARD = 10 ** 9        # knife-edge guard: 1e-9 relative
# the end of the record: the library's last sample time is the float product (n-1)*dt, one rounding (1.1e-16
# relative) away from the exact one; only an end within 1e-13 of it is left undecided (was 1e-9 until round 6,
# which left a tolerance-based comparison of the end time unnoticed)
END_GUARD = 10 ** 13


def _common(dt, t):
    """Integers (P, R) with dt = P/K and t = R/K for one common K."""
    pn, pd = float(dt).as_integer_ratio()
    rn, rd = float(t).as_integer_ratio()
    K = max(pd, rd)                 # both powers of two
    return pn * (K // pd), rn * (K // rd)


def position(dt, t):
    """Exact position of time t in units of samples (a Fraction)."""
    return Fraction(float(t)) / Fraction(float(dt))


def nearest(n, dt, t):
    """Indices of the samples (almost) equally nearest to time t.

    Returns (candidates, knife) - ``candidates`` is a sorted list; it holds more
    than one index only when the two smallest distances differ by no more than
    1e-9 of a sample interval (scaled by the position for large times), i.e.
    t is half-way between two samples up to rounding.
    """
    P, R = _common(dt, t)
    dist = [abs(i * P - R) for i in range(n)]
    m = min(dist)
    scale = max(1, abs(R) // P)
    cands = [i for i, d in enumerate(dist) if (d - m) * GUARD <= P * scale]
    return cands, len(cands) > 1


def refusal(n, dt, a, b):
    """Must trim(a, b) be refused on a record of n samples?

    Returns (verdict, reason): verdict True (must raise), False (must not) or
    None (knife-edge: b is within 1e-13 relative of the last sample time).
    """
    a = float(a)
    b = float(b)
    if a < 0:
        return True, "start before the record"
    if a >= b:
        return True, "start not before end"
    P, R = _common(dt, b)
    last = (n - 1) * P
    if abs(R - last) * END_GUARD <= last:
        if R == last:
            return False, "end exactly on the last sample"
        return None, "end within 1e-13 of the last sample time"
    if R > last:
        return True, "end after the record"
    return False, "inside"


def expected(n, dt, a, b):
    """dict(refuse=True/False/None, reason, starts=[...], ends=[...], knife=bool)."""
    refuse, reason = refusal(n, dt, a, b)
    out = dict(refuse=refuse, reason=reason, starts=[], ends=[], knife=refuse is None)
    if refuse is True:
        return out
    ca, ka = nearest(n, dt, a)
    cb, kb = nearest(n, dt, b)
    out.update(starts=ca, ends=cb, knife=bool(ka or kb or refuse is None))
    return out
