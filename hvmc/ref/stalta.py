"""Reference STA/LTA ratios, written from the definition (no hvsrpy, no FFT).

Definition (hvsrpy docstring / property C13):

* STA  = mean |x| over consecutive, non-overlapping chunks of ``sta_seconds``
         (a trailing partial chunk is not a chunk),
* LTA  = mean |x| over the first ``lta_seconds`` of the window,
* ratios = STA / LTA, one per chunk.

How many samples "``sta_seconds``" is, is where a faithful implementation has
latitude: the exact quotient ``sta/dt`` of the intended decimal numbers is an
integer q for every alphabet value, but in binary floating point
``1 // 0.01 == 99.0``.  Both q and q-1 are therefore *plausible* chunk
lengths, likewise for the LTA prefix; and an implementation may take the LTA
prefix from the window or from the part of the window that is covered by
whole chunks (these differ only if the prefix reaches into the uncovered
tail).  ``ratio_variants`` returns the ratios for every plausible reading;
``classify`` calls a window *clearly inside* / *clearly outside* the limits
only if every reading says so with a relative margin, and *unclear*
otherwise.  Only clear windows are compared with the implementation.
"""
import math
from fractions import Fraction

MARGIN = 1e-6       # relative margin for "clearly"
KNIFE = 1e-9        # relative distance to a limit below which nothing is compared


def _frac(x):
    """The small rational a float literal such as 0.01 stands for."""
    return Fraction(x).limit_denominator(1000000)


def plausible_lengths(seconds, dt):
    """Plausible sample counts for a duration: exact floor and, if the exact
    quotient is an integer, one less (floating-point floor division)."""
    q = _frac(seconds) / _frac(dt)
    n = math.floor(q)
    out = [n]
    if q == n and n - 1 >= 1:
        out.append(n - 1)
    return [v for v in out if v >= 1]


def mean_abs(x):
    return math.fsum(abs(float(v)) for v in x) / len(x)


def sta_values(x, chunk):
    nchunks = len(x) // chunk
    return [mean_abs(x[k * chunk:(k + 1) * chunk]) for k in range(nchunks)]


def ratio_variants(x, dt, sta_seconds, lta_seconds):
    """List of dict(chunk, lta_len, lta_from, ratios) - one per plausible reading."""
    x = [float(v) for v in x]
    n = len(x)
    out = []
    seen = set()
    for chunk in plausible_lengths(sta_seconds, dt):
        if chunk > n:
            continue
        stas = sta_values(x, chunk)
        covered = chunk * (n // chunk)
        for lta_len in plausible_lengths(lta_seconds, dt):
            if lta_len > n:
                continue
            for src, eff in (("window", lta_len), ("chunks", min(lta_len, covered))):
                key = (chunk, eff)
                if key in seen:
                    continue
                seen.add(key)
                lta = mean_abs(x[:eff])
                if lta == 0.0:
                    ratios = [math.inf if s > 0 else math.nan for s in stas]
                else:
                    ratios = [s / lta for s in stas]
                out.append(dict(chunk=chunk, lta_len=eff, lta_from=src, ratios=ratios))
    if not out:
        raise ValueError("sta/lta longer than the window: outside the domain of the property")
    return out


def _cmp(r, limit, margin):
    """+1: r clearly above limit, -1: clearly below, 0: too close to call."""
    scale = max(abs(r), abs(limit))
    if math.isnan(r) or math.isnan(limit):
        return 0
    if r - limit > margin * scale:
        return 1
    if limit - r > margin * scale:
        return -1
    return 0


def classify(variants, lo, hi, margin=MARGIN):
    """'inside' | 'outside' | 'unclear' for one component of one window."""
    verdicts = set()
    for v in variants:
        rs = v["ratios"]
        if all(_cmp(r, lo, margin) == 1 and _cmp(r, hi, margin) == -1 for r in rs):
            verdicts.add("inside")
        elif any(_cmp(r, lo, margin) == -1 or _cmp(r, hi, margin) == 1 for r in rs):
            verdicts.add("outside")
        else:
            verdicts.add("unclear")
    if verdicts == {"inside"}:
        return "inside"
    if verdicts == {"outside"}:
        return "outside"
    return "unclear"


def knife_edge(variants, lo, hi, tol=KNIFE):
    """True if any ratio of any reading is within ``tol`` (relative) of a limit."""
    for v in variants:
        for r in v["ratios"]:
            if _cmp(r, lo, tol) == 0 or _cmp(r, hi, tol) == 0:
                return True
    return False


def window_verdict(component_classes):
    """Combine per-component classes of the examined components.

    keep (True) iff every examined component is clearly inside; reject (False)
    iff some examined component is clearly outside; None = not decidable.
    """
    if any(c == "outside" for c in component_classes):
        return False
    if all(c == "inside" for c in component_classes):
        return True
    return None
