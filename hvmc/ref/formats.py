"""Reference *writers* for the seismic file formats hvsrpy reads (C07).

Every function here produces a file from known samples and returns nothing
the check has to trust except the inputs it passed in: the check compares what
hvsrpy's readers return with the samples handed to these writers.

* SAF (SESAME ASCII), MiniShark and PEER are text formats and are written here
  line by line from their layouts (SAF and PEER after the example files in
  /repo/test/data/input; MiniShark after the four header keys and the
  three-column tab separated body that its reader documents - the example
  file of this checkout is empty).
* miniSEED, SAC and GCF are binary formats and are written with obspy, which
  is a trusted third party here (DESIGN section 8).

No hvsrpy import, no FFT.  ``numpy`` is used for array plumbing only.
"""
import numpy as np

COMPONENTS = ("vt", "ns", "ew")
INT32_MAX = 2 ** 31 - 1
INT32_MIN = -2 ** 31


# ---------------------------------------------------------------------------
# sample-value alphabets.  Each returns {"vt": [...], "ns": [...], "ew": [...]}
# with three sequences that differ from one another in every position (a swap
# of two components, a sign flip or a shift by one sample is visible).

def int_samples(kind, n):
    """Integer samples (python ints) for the integer formats."""
    out = {}
    if kind == "ramp":
        out["vt"] = [3 * k + 1 for k in range(n)]
        out["ns"] = [-5 * k + 1000 for k in range(n)]
        out["ew"] = [7 * k - 2001 for k in range(n)]
    elif kind == "extreme":
        base = [INT32_MAX, INT32_MIN, 0, 1, -1, INT32_MAX - 1, INT32_MIN + 1, 123456789]
        out["vt"] = [base[k % 8] for k in range(n)]
        out["ns"] = [base[(k + 3) % 8] for k in range(n)]
        out["ew"] = [base[(k + 5) % 8] for k in range(n)]
    elif kind == "inexact":
        # not representable in single precision (odd numbers above 2**24)
        out["vt"] = [16777217 + 2 * k for k in range(n)]
        out["ns"] = [-33554435 - 6 * k for k in range(n)]
        out["ew"] = [67108867 + 10 * k for k in range(n)]
    elif kind == "smallstep":
        # first differences that fit every compressed integer encoding
        out["vt"] = [(k * 37) % 101 - 50 for k in range(n)]
        out["ns"] = [(k * 53) % 103 + 200 for k in range(n)]
        out["ew"] = [-((k * 29) % 107) - 300 for k in range(n)]
    else:
        raise KeyError(kind)
    return out


def float_samples(kind, n, dtype):
    """Floating point samples of the given numpy dtype (values are exactly
    representable in that dtype by construction: they are rounded to it here,
    and the rounded values are what the writer stores and the oracle expects)."""
    dtype = np.dtype(dtype)
    k = np.arange(n, dtype=np.float64)
    if kind == "ramp":
        vt, ns, ew = 0.5 * k + 1.0, -0.25 * k + 100.0, 2.0 * k - 300.0
    elif kind == "inexact":
        vt, ns, ew = (k + 1.0) / 3.0, -(k + 2.0) / 7.0, (k + 3.0) * 0.1
    elif kind == "wide":
        vt = (k + 1.0) * 1e-12
        ns = -(k + 1.0) * 3e12
        ew = np.where(k % 2 == 0, 1.0, -1.0) * (k + 1.0) * 1e3 / 3.0
    else:
        raise KeyError(kind)
    return {"vt": vt.astype(dtype), "ns": ns.astype(dtype), "ew": ew.astype(dtype)}


def peer_tokens(kind, n, style="fortran"):
    """PEER sample tokens (strings) per component.

    A token is what is stored in the file; the value it denotes is
    ``float(token)`` (decimal literal -> nearest double), nothing else.
    """
    out = {}
    for ci, comp in enumerate(COMPONENTS):
        toks = []
        for k in range(n):
            if kind == "ramp":
                mant = 1000000 + (1111 * (ci + 1) * (k + 1)) % 8999999
                expo = -4 + ci
                neg = False
            elif kind == "mixed":
                mant = 1000000 + (777773 * (k + 1) * (ci + 2)) % 8999999
                expo = ((k + ci) % 9) - 6
                neg = ((k + ci) % 3 == 0)
            elif kind == "zeros":
                # first sample exactly zero, as in the PEER example files
                mant = 0 if k == 0 else 1000000 + (1234 * (ci + 3) * k) % 8999999
                expo = 0 if k == 0 else -2 - ci
                neg = (k % 2 == 1) and ci == 1
            else:
                raise KeyError(kind)
            toks.append(_peer_token(mant, expo, neg, style))
        out[comp] = toks
    return out


def _peer_token(mant, expo, neg, style):
    sign = "-" if neg else ""
    if style == "fortran":          # '  -.1234567E-03' : mantissa in [0.1, 1)
        return f"{sign}.{mant:07d}E{expo:+03d}"
    if style == "c":                # '-1.234567E-04'  : mantissa in [1, 10)
        s = f"{mant:07d}"
        return f"{sign}{s[0]}.{s[1:]}e{expo - 1:+03d}"
    # further legitimate spellings of the same decimal number (value = 0.<mant> * 10**expo)
    if style in ("int2", "int4"):   # '-12.34567E-05', '1234.567E-7': k digits before the point
        k = int(style[3])
        s = f"{mant:07d}"
        ip = str(int(s[:k]))        # no padding zeros in the integer part ('0' for the zero sample)
        if style == "int2":
            return f"{sign}{ip}.{s[k:]}E{expo - k:+03d}"
        return f"{sign}{ip}.{s[k:]}E{expo - k:d}"       # int4: exponent without padding and without '+'
    raise KeyError(style)


# ---------------------------------------------------------------------------
# text formats

def _write_text(path, lines, newline):
    data = (newline.join(lines) + newline).encode("ascii")
    with open(path, "wb") as f:
        f.write(data)


def write_saf(path, columns, channel_ids, rate, north_rot=0, ndat=None,
              newline="\n", padded=True, drop_lines=(), extra_rows=()):
    """SESAME ASCII format.

    columns      three equally long integer sequences, column 0, 1, 2 of the body
    channel_ids  the letters ("V", "N", "E" in some order) declared for CH0/CH1/CH2
    north_rot    value of the NORTH_ROT keyword, or None to leave the keyword out
    ndat         value of the NDAT keyword (default: the number of rows written)
    drop_lines   header keywords to leave out (malformed variants)
    """
    n = len(columns[0])
    ndat = n if ndat is None else ndat
    num = (lambda v: f"{v:010d}") if padded else (lambda v: f"{v:d}")
    head = [
        "SESAME ASCII data format (saf) v. 1    (this line must not be modified)",
        f"SAMP_FREQ = {rate}",
        f"NDAT = {num(ndat)}",
        "START_TIME = 2021 11 22 13 31 10.000",
        "CLIPPING SAMPLES = 0000000000 0000000000 0000000000",
        "SENSOR_TYPE = Velocity",
        "RESPFILE =",
        "# The above response file is correlated only to the Z-channel",
        "ACQ_SYSTEM = hvmc reference writer",
        "STA_CODE = HVMC-01",
        "STA_COORD_TYPE = 0",
    ]
    if north_rot is not None:
        head.append(f"NORTH_ROT = {north_rot}")
    head.append("UNITS = Counts")
    for i, letter in enumerate(channel_ids):
        head.append(f"CH{i}_ID = {letter}")
    head += ["STA_X =", "STA_Y =", "STA_Z = 0", "####--------------------------------"]
    head = [h for h in head if not any(h.startswith(d) for d in drop_lines)]
    rows = [f"{int(a):d} {int(b):d} {int(c):d}" for a, b, c in zip(*columns)]
    rows += list(extra_rows)
    _write_text(path, head + rows, newline)


def write_minishark(path, vt, ns, ew, rate, gain, conversion, nsamples=None,
                    newline="\n", extra_rows=()):
    """MiniShark text format: '#key:<TAB>value' header, body vt<TAB>ns<TAB>ew."""
    n = len(vt)
    nsamples = n if nsamples is None else nsamples
    head = [
        "#MiniShark ASCII data (hvmc reference writer)",
        "#Serial number:\t0003",
        "#Recording date:\t2018-11-15",
        f"#Sample rate (sps):\t{rate:d}",
        f"#Sample number:\t{nsamples:d}",
        f"#Gain:\t{gain:d}",
        f"#Conversion factor:\t{conversion:d}",
        "#Columns:\tvertical\tnorth\teast",
    ]
    rows = [f"{int(a):d}\t{int(b):d}\t{int(c):d}" for a, b, c in zip(vt, ns, ew)]
    rows += list(extra_rows)
    _write_text(path, head + rows, newline)


def write_peer(path, tokens, code, dt_str, npts=None, newline="\n"):
    """PEER NGA text format: 4 header lines, then 5 right-aligned tokens a line."""
    n = len(tokens)
    npts = n if npts is None else npts
    head = [
        "PEER NGA STRONG MOTION DATABASE RECORD",
        f"Synthetic-01, 1/17/1994, Reference - Writer Station, {code}",
        "VELOCITY TIME SERIES IN UNITS OF CM/S",
        f"NPTS=  {npts:5d}, DT=   {dt_str} SEC" + " " * 46,
    ]
    rows = []
    for i in range(0, n, 5):
        rows.append("".join(f"{t:>15s}" for t in tokens[i:i + 5]))
    _write_text(path, head + rows, newline)


# ---------------------------------------------------------------------------
# binary formats, through obspy (trusted)

def _trace(channel, data, rate):
    import obspy
    tr = obspy.Trace(data=np.ascontiguousarray(data))
    tr.stats.network = "XX"
    tr.stats.station = "HVMC"
    tr.stats.channel = channel
    tr.stats.sampling_rate = rate
    tr.stats.starttime = obspy.UTCDateTime(2020, 1, 1)
    return tr


def write_mseed(path, traces, rate, encoding=None, byteorder=None):
    """``traces`` = ordered list of (channel code, numpy array); written in that order."""
    import obspy
    st = obspy.Stream([_trace(c, d, rate) for c, d in traces])
    kw = {}
    if encoding is not None:
        kw["encoding"] = encoding
    if byteorder is not None:
        kw["byteorder"] = byteorder
    st.write(str(path), format="MSEED", **kw)


def write_sac(path, channel, data, rate, byteorder="little"):
    """One SAC file holding one float32 trace in the requested byte order."""
    import obspy
    st = obspy.Stream([_trace(channel, np.asarray(data, dtype=np.float32), rate)])
    st.write(str(path), format="SAC", byteorder={"little": 0, "big": 1}[byteorder])


def write_gcf(path, traces, rate):
    """``traces`` = ordered list of (channel code, int32 numpy array)."""
    import obspy
    st = obspy.Stream([_trace(c, np.asarray(d, dtype=np.int32), rate) for c, d in traces])
    st.write(str(path), format="GCF")


def write_mseed_own_rates(path, traces, encoding=None):
    """``traces`` = ordered list of (channel code, numpy array, sampling rate of THAT trace)."""
    import obspy
    st = obspy.Stream([_trace(c, d, r) for c, d, r in traces])
    kw = {} if encoding is None else {"encoding": encoding}
    st.write(str(path), format="MSEED", **kw)


def write_gcf_own_rates(path, traces):
    """``traces`` = ordered list of (channel code, int32 numpy array, sampling rate of THAT trace)."""
    import obspy
    st = obspy.Stream([_trace(c, np.asarray(d, dtype=np.int32), r) for c, d, r in traces])
    st.write(str(path), format="GCF")


def lcg_bytes(n, seed=20260407):
    """Deterministic 'random' bytes (linear congruential generator)."""
    out = bytearray()
    x = seed
    for _ in range(n):
        x = (1103515245 * x + 12345) % (2 ** 31)
        out.append((x >> 16) & 0xFF)
    return bytes(out)


# ---------------------------------------------------------------------------
# naive parsers for the two text formats that have real example files in the
# repository (used to anchor the writers above to files not written by us).
# Plain str.split, no regular expressions.

def parse_saf_naive(path):
    """-> (header dict, list of integer rows)."""
    with open(path, "rb") as f:
        lines = f.read().decode("ascii", errors="replace").splitlines()
    header, rows, body = {}, [], False
    for ln in lines:
        if body:
            if ln.strip():
                rows.append([int(t) for t in ln.split()])
        elif ln.startswith("####"):
            body = True
        elif "=" in ln and not ln.startswith("#"):
            k, v = ln.split("=", 1)
            header[k.strip()] = v.strip()
    return header, rows


def parse_peer_naive(path):
    """-> (direction code, NPTS, DT, list of sample values)."""
    with open(path, "rb") as f:
        lines = f.read().decode("ascii", errors="replace").splitlines()
    code = lines[1].split(",")[-1].strip()
    npts = int(lines[3].split("NPTS=")[1].split(",")[0])
    dt = float(lines[3].split("DT=")[1].split()[0])
    values = [float(t) for t in " ".join(lines[4:]).split()]
    return code, npts, dt, values
