"""Frequency-domain window-rejection algorithm of Cox et al. (2020), written
from its description on top of ref.stats; returns the per-iteration trace.

Inputs are plain lists:
  peak_f[i]    peak frequency of window i for the search range (nan = no peak)
  vw[i], vp[i] accept state of window i (curve mask, peak mask) on entry
  rows[i]      the curve of window i
  mc_peak(mean_curve) -> (frequency or None, knife) peak of a mean curve in the
               search range (supplied by the caller, see checks/c06.py)

The algorithm: repeat
   before  = (mean fn, std fn, mean-curve peak) over the accepted windows
   remove every accepted window whose peak is not strictly inside
           (mean - n std, mean + n std)            [log space for lognormal]
   after   = the same three quantities
   stop when |d_after - d_before|/d_before < 0.01 and |std_after - std_before| < 0.01
           with d = |mean fn - mean-curve peak|
   (or when d_before, std_before or std_after is exactly zero, where the relative
    change is undefined - the original implementation returns there too)
at most max_iterations times; the number of iterations performed is returned,
also when the limit stops the loop.
"""
import math

from . import stats as RS

KNIFE_REL = 1e-9


class OutOfDomain(Exception):
    """The algorithm's quantities are undefined (fewer than two peaks, no
    mean-curve peak...).  ``args[0]`` says why, ``iteration`` when."""


def _near(a, b, scale):
    return abs(a - b) <= KNIFE_REL * max(abs(scale), 1e-300)


def run(peak_f, vw, vp, rows, mc_peak, n, max_iterations, dist_fn, dist_mc):
    vw = list(vw)
    vp = list(vp)
    W = len(rows)
    trace = []
    knife = False

    def quantities(tag, it):
        fs = [peak_f[i] for i in range(W) if vp[i] and not math.isnan(peak_f[i])]
        if len(fs) < 2:
            raise OutOfDomain(f"fewer than two valid peaks ({tag})", it)
        acc = [rows[i] for i in range(W) if vw[i]]
        if not acc:
            raise OutOfDomain(f"no accepted window ({tag})", it)
        m = RS.mean(fs, dist_fn)
        s = RS.std(fs, dist_fn)
        mc = RS.mean_curve(acc, dist_mc) if len(acc) > 1 else list(acc[0])
        pk, kn = mc_peak(mc)
        if pk is None:
            raise OutOfDomain(f"mean curve without peak ({tag})", it)
        return m, s, pk, kn

    for it in range(1, max_iterations + 1):
        rec = dict(iteration=it, vw_before=list(vw), vp_before=list(vp))
        try:
            m_b, s_b, pk_b, kn = quantities("before", it)
        except OutOfDomain as e:
            e.trace = trace
            e.knife = knife
            e.vw, e.vp = vw, vp
            raise
        knife = knife or kn
        d_b = abs(m_b - pk_b)
        lower = RS.nth_std(-n, [peak_f[i] for i in range(W) if vp[i] and not math.isnan(peak_f[i])], dist_fn)
        upper = RS.nth_std(+n, [peak_f[i] for i in range(W) if vp[i] and not math.isnan(peak_f[i])], dist_fn)
        rec.update(mean_fn_before=m_b, std_fn_before=s_b, mc_peak_frq_before=pk_b,
                   lower=lower, upper=upper)
        for i in range(W):
            if not vp[i]:
                continue
            f = peak_f[i]
            if math.isnan(f):
                # an accepted peak mask on a window without peak: the window
                # cannot be "inside"; the statement removes it.
                vw[i] = False
                vp[i] = False
                continue
            if _near(f, lower, f) or _near(f, upper, f):
                knife = True
            if lower < f < upper:
                vw[i] = True
                vp[i] = True
            else:
                vw[i] = False
                vp[i] = False
        rec.update(vw_after=list(vw), vp_after=list(vp))
        try:
            m_a, s_a, pk_a, kn = quantities("after", it)
        except OutOfDomain as e:
            trace.append(rec)
            e.trace = trace
            e.knife = knife
            e.vw, e.vp = vw, vp
            raise
        knife = knife or kn
        d_a = abs(m_a - pk_a)
        rec.update(mean_fn_after=m_a, std_fn_after=s_a, mc_peak_frq_after=pk_a)
        trace.append(rec)
        # whether one of these is EXACTLY zero depends on summation order (fsum gives 0 where a
        # running sum gives 2e-16): any value within rounding of zero makes the call knife-edge.
        if _near(d_b, 0.0, m_b) or _near(s_b, 0.0, 1.0) or _near(s_a, 0.0, 1.0):
            knife = True
        if d_b == 0 or s_b == 0 or s_a == 0:
            rec["stop"] = "zero"
            return dict(iterations=it, vw=vw, vp=vp, trace=trace, knife=knife, stop="zero")
        d_diff = abs(d_a - d_b) / d_b
        s_diff = abs(s_a - s_b)
        rec.update(d_diff=d_diff, s_diff=s_diff)
        if _near(d_diff, 0.01, 0.01) or _near(s_diff, 0.01, 0.01):
            knife = True
        if d_diff < 0.01 and s_diff < 0.01:
            rec["stop"] = "converged"
            return dict(iterations=it, vw=vw, vp=vp, trace=trace, knife=knife, stop="converged")
    return dict(iterations=max_iterations, vw=vw, vp=vp, trace=trace, knife=knife, stop="limit")
