"""Reference bookkeeping for C17 - no FFT anywhere.

1. Parseval in the time domain
------------------------------
Window x of L samples, taper w (L samples), x_t = x * w, zero-padded to n >= L,
time step dt, fs = 1/dt, df = fs/n.  With X_k = sum_j x_t[j] exp(-2 pi i j k / n)

    sum_{k=0}^{n-1} |X_k|^2 = n * sum_j x_t[j]^2                     (Parseval)

and |X_k| = |X_{n-k}| for real input, so the bins strictly between 0 Hz and the
Nyquist frequency fs/2 carry

    2 * sum_{0<k<n/2} |X_k|^2 = n * sum x_t^2 - X_0^2 - [n even] X_{n/2}^2,
    X_0 = sum_j x_t[j],   X_{n/2} = sum_j (-1)^j x_t[j].

A one-sided density normalised after Welch (1967) is
P_k = 2 |X_k|^2 / (fs * L * U),  U = mean(w^2),  so

    sum_{0<k<Nyq} P_k * df = [ mean(x_t^2) - (X_0^2 + X_Nyq^2) / (L n) ] / U.

For odd n there is no bin at the Nyquist frequency; X_Nyq is then absent (0)
and every bin k >= 1 lies strictly below fs/2.  Every sum uses math.fsum.

2. Analytic spectral operations on periodic sinusoids
-----------------------------------------------------
x[j] = c0 + sum_m A_m cos(2 pi k_m j / L + phi_m) with integer 0 < k_m < L/2 is
periodic in the window.  A linear time-invariant operation with transfer
function G(f) maps it to  sum_m Re[ A_m G(f_m) exp(i (2 pi k_m j / L + phi_m)) ],
f_m = k_m / (L dt); the constant c0 is removed.  G = 2 pi i f for the derivative
and 1 / H(2 pi i f) for the removal of an instrument response
H(s) = a * sens * prod(s - z) / prod(s - p).

3. Explicit spectral operation on an arbitrary (tapered, zero-padded) series
----------------------------------------------------------------------------
The same operation written as an explicit one-sided DFT (matrix of complex
exponentials, no FFT) of the series padded to n samples, multiplication by G
on the one-sided bins with the spectrum treated as Hermitian (the 0 Hz bin is
dropped, the Nyquist bin of an even n contributes its real part only), explicit
inverse sum, first L samples.
"""
import cmath
import math

import numpy as np


# ---------------------------------------------------------------------------
# 1. Parseval

def parseval_rhs(x, w, n):
    """[mean(x_t^2) - (X_0^2 + X_Nyq^2)/(L n)] / mean(w^2) for x_t = x*w padded to n."""
    L = len(x)
    if len(w) != L:
        raise ValueError("taper and window differ in length")
    if n < L:
        raise ValueError("reference is defined for zero-padding (n >= L) only")
    xt = [float(a) * float(b) for a, b in zip(x, w)]
    ms = math.fsum(v * v for v in xt) / L
    x0 = math.fsum(xt)
    xn = math.fsum(v if j % 2 == 0 else -v for j, v in enumerate(xt)) if n % 2 == 0 else 0.0
    u = math.fsum(float(v) * float(v) for v in w) / L
    return (ms - (x0 * x0 + xn * xn) / (L * n)) / u


def parseval_terms(x, w, n):
    """The pieces of parseval_rhs, for counterexample reports."""
    L = len(x)
    xt = [float(a) * float(b) for a, b in zip(x, w)]
    return dict(mean_square_tapered=math.fsum(v * v for v in xt) / L,
                X0=math.fsum(xt),
                XNyq=(math.fsum(v if j % 2 == 0 else -v for j, v in enumerate(xt))
                      if n % 2 == 0 else None),
                taper_mean_square=math.fsum(float(v) ** 2 for v in w) / L, L=L, n=n)


def interior_bins(n):
    """Indices k of the one-sided bins with 0 < f_k < fs/2 for an n-point transform."""
    last = n // 2 - 1 if n % 2 == 0 else (n - 1) // 2
    return list(range(1, last + 1))


def n_onesided(n):
    return n // 2 + 1


def band_power(psd, n, dt):
    """sum over the interior bins of psd[k] * df."""
    df = 1.0 / (n * dt)
    return math.fsum(float(psd[k]) for k in interior_bins(n)) * df


def mean_of(psds):
    """Arithmetic mean over windows, bin by bin (Welch)."""
    m = len(psds)
    nb = len(psds[0])
    return [math.fsum(float(p[k]) for p in psds) / m for k in range(nb)]


# ---------------------------------------------------------------------------
# 2. analytic operations on sinusoids periodic in the window

def sinusoids(L, comps, offset=0.0):
    """x[j] = offset + sum A cos(2 pi k j / L + phi) for comps = [(k, A, phi), ...]."""
    return [offset + math.fsum(A * math.cos(2.0 * math.pi * k * j / L + phi)
                               for (k, A, phi) in comps) for j in range(L)]


def transfer_derivative(f):
    """2 pi i f (f a float or an ndarray of floats)."""
    return 2.0j * math.pi * np.asarray(f, dtype=float)


def transfer_response(f, poles, zeros, sensitivity, normalization):
    """H(2 pi i f) = a * sens * prod(s - z) / prod(s - p) (f a float or an ndarray)."""
    s = 2.0j * math.pi * np.asarray(f, dtype=float)
    h = (normalization * sensitivity) * np.ones_like(s)
    for z in zeros:
        h = h * (s - _c(z))
    for p in poles:
        h = h / (s - _c(p))
    return h


def _c(v):
    """complex from a number or a JSON-able [re, im] pair."""
    return complex(*v) if isinstance(v, (list, tuple)) else complex(v)


def make_gain(differentiate, response):
    """G(f) of the preprocessing chain: response removal, then differentiation.

    ``response`` is None or dict(poles, zeros, sensitivity, normalization).
    Returns a function f -> complex gain, f > 0 a float or an ndarray; where
    H(2 pi i f) is exactly zero the gain is zero (nothing can be restored)."""
    def G(f):
        f = np.asarray(f, dtype=float)
        g = np.ones(f.shape, dtype=complex)
        if response is not None:
            h = transfer_response(f, response["poles"], response["zeros"],
                                  response["sensitivity"], response["normalization"])
            ok = np.abs(h) > 0.0
            g = np.where(ok, 1.0 / np.where(ok, h, 1.0), 0.0)
        if differentiate:
            g = g * transfer_derivative(f)
        return g
    return G


def apply_gain_to_sinusoids(L, dt, comps, G):
    """Analytic output of the LTI operation G on the periodic sinusoids (offset removed)."""
    out = []
    gains = [(k, A, phi, complex(G(k / (L * dt)))) for (k, A, phi) in comps]
    for j in range(L):
        out.append(math.fsum((A * g * cmath.exp(1j * (2.0 * math.pi * k * j / L + phi))).real
                             for (k, A, phi, g) in gains))
    return out


# ---------------------------------------------------------------------------
# 3. explicit (matrix) spectral operation, Hermitian one-sided convention

_DFT_CACHE = {}


def _dft_rows(L, n):
    """E[k-1, j] = exp(-2 pi i j k / n) for the one-sided bins k = 1 .. n//2 (single-entry cache)."""
    key = (L, n)
    if key not in _DFT_CACHE:
        _DFT_CACHE.clear()
        k = np.arange(1, n // 2 + 1, dtype=float)
        j = np.arange(L, dtype=float)
        ang = -2.0 * np.pi * np.outer(k, j) / n
        _DFT_CACHE[key] = np.cos(ang) + 1j * np.sin(ang)
    return _DFT_CACHE[key]


def apply_gain_explicit(y, n, dt, G):
    """Pad y (L samples) to n, multiply its spectrum by G (0 Hz bin dropped), return L samples.

    Explicit DFT / inverse DFT as products with the matrix of complex
    exponentials (no FFT).  Work and memory are O(L * n/2); meant for L <= 64."""
    y = np.asarray(y, dtype=float)
    L = len(y)
    if n < L:
        raise ValueError("n < L")
    E = _dft_rows(L, n)                             # (nb-1, L)
    nb1 = E.shape[0]
    X = E @ y                                       # X_k, k = 1 .. n//2
    g = G(np.arange(1, nb1 + 1, dtype=float) / (n * dt))
    Y = X * g
    wgt = np.full(nb1, 2.0)
    if n % 2 == 0:
        wgt[-1] = 1.0                               # the Nyquist bin is its own mirror image
        Y[-1] = Y[-1].real
    # y'[m] = (1/n) * sum_k wgt_k * Re[ Y_k exp(+2 pi i k m / n) ]
    out = np.conj(E.T @ np.conj(wgt * Y)).real / n     # = (conj(E).T @ (wgt*Y)).real / n, without a copy of E
    return [float(v) for v in out]


def demean(x):
    m = math.fsum(float(v) for v in x) / len(x)
    return [float(v) - m for v in x]
