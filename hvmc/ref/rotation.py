"""Plane geometry of a two-horizontal-component sensor, clockwise-from-north convention.

An azimuth is an angle measured clockwise from north, so the unit vector of
azimuth a has (north, east) coordinates (cos a, sin a).  A sensor "deployed at
d" has its ns axis along azimuth d and its ew axis along azimuth d + 90, i.e.
along (-sin d, cos d).  Everything here is written from that definition with
``math.cos`` / ``math.sin`` of scalars; numpy only carries the sample arrays.
"""
import math

import numpy as np


def axes(d_deg):
    """(north, east) coordinates of the ns axis and of the ew axis of a sensor deployed at d."""
    r = math.radians(d_deg)
    c, s = math.cos(r), math.sin(r)
    return (c, s), (-s, c)


def deploy(north, east, d_deg):
    """What a sensor deployed at d records of the true (north, east) motion -> (ns, ew)."""
    north = np.asarray(north, dtype=float)
    east = np.asarray(east, dtype=float)
    (an, ae), (bn, be) = axes(d_deg)
    return north * an + east * ae, north * bn + east * be


def reorient(ns, ew, current_deg, target_deg):
    """Components of the same motion on a sensor turned from ``current`` to ``target``.

    Turning the sensor clockwise by r = target - current gives
        ns' = ns cos r + ew sin r,      ew' = ew cos r - ns sin r.
    """
    ns = np.asarray(ns, dtype=float)
    ew = np.asarray(ew, dtype=float)
    r = math.radians(target_deg - current_deg)
    c, s = math.cos(r), math.sin(r)
    return ns * c + ew * s, ew * c - ns * s


def polarised(motion, theta_deg):
    """True (north, east) motion of a scalar time history polarised along azimuth theta."""
    motion = np.asarray(motion, dtype=float)
    r = math.radians(theta_deg)
    return motion * math.cos(r), motion * math.sin(r)


def project(ns, ew, azimuth_deg):
    """Component along ``azimuth`` (measured from the ns axis, clockwise) and the one orthogonal to it."""
    ns = np.asarray(ns, dtype=float)
    ew = np.asarray(ew, dtype=float)
    r = math.radians(azimuth_deg)
    c, s = math.cos(r), math.sin(r)
    return ns * c + ew * s, ew * c - ns * s


def energy(*components):
    """Sum of squares of all samples of all components (math.fsum)."""
    return math.fsum(float(v) * float(v) for comp in components for v in np.asarray(comp, dtype=float))


def same_direction(a_deg, b_deg, atol=1e-9):
    """True when two angles in degrees are equal modulo 360."""
    d = math.fmod(float(a_deg) - float(b_deg), 360.0)
    if d < 0:
        d += 360.0
    return min(d, 360.0 - d) <= atol
