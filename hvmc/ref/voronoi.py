"""Nearest-sensor area fractions of a convex region, in exact rational arithmetic.

Deliberately naive and independent of any Voronoi / Delaunay machinery:

* the region is the convex hull of the boundary points (Andrew's monotone
  chain with exact cross products, collinear and interior points dropped);
* a sensor is *retained* iff it lies strictly inside the hull (exact test);
* the cell of a retained sensor p is the hull clipped, one after the other,
  with the closed half-planes  |x - p|^2 <= |x - q|^2  of every other retained
  sensor q (Sutherland-Hodgman against one line, exact intersections);
* areas by the shoelace formula; weight = cell area / hull area.

Every float is converted with ``Fraction(float)`` (exact), so the result is the
exact answer for exactly the numbers that were handed to the implementation.
No hvsrpy, scipy, shapely or numpy imports.
"""
from fractions import Fraction


def _pt(p):
    return (Fraction(p[0]), Fraction(p[1]))


def cross(o, a, b):
    return (a[0] - o[0]) * (b[1] - o[1]) - (a[1] - o[1]) * (b[0] - o[0])


def convex_hull(points):
    """Counter-clockwise hull vertices (exact); collinear points removed."""
    pts = sorted(set(_pt(p) for p in points))
    if len(pts) < 3:
        return pts
    lower = []
    for p in pts:
        while len(lower) >= 2 and cross(lower[-2], lower[-1], p) <= 0:
            lower.pop()
        lower.append(p)
    upper = []
    for p in reversed(pts):
        while len(upper) >= 2 and cross(upper[-2], upper[-1], p) <= 0:
            upper.pop()
        upper.append(p)
    return lower[:-1] + upper[:-1]


def shoelace(poly):
    """Signed area (positive for counter-clockwise polygons)."""
    n = len(poly)
    if n < 3:
        return Fraction(0)
    s = Fraction(0)
    for i in range(n):
        x0, y0 = poly[i]
        x1, y1 = poly[(i + 1) % n]
        s += x0 * y1 - x1 * y0
    return s / 2


def edge_margins(p, hull):
    """cross(a, b, p) for every hull edge (a, b); all > 0 <=> strictly inside."""
    p = _pt(p)
    n = len(hull)
    return [cross(hull[i], hull[(i + 1) % n], p) for i in range(n)]


def strictly_inside(p, hull):
    return all(m > 0 for m in edge_margins(p, hull))


def boundary_clearance(p, hull):
    """min over hull edges of |signed distance|^2 of p to the edge's line, as a
    Fraction (0 = exactly on the line of an edge).  Used for knife-edge guards."""
    p = _pt(p)
    n = len(hull)
    best = None
    for i in range(n):
        a, b = hull[i], hull[(i + 1) % n]
        c = cross(a, b, p)
        l2 = (b[0] - a[0]) ** 2 + (b[1] - a[1]) ** 2
        d2 = c * c / l2
        if best is None or d2 < best:
            best = d2
    return best


def clip_halfplane(poly, a, b, c):
    """Part of the convex polygon ``poly`` with  a*x + b*y <= c  (exact)."""
    out = []
    n = len(poly)
    f = [a * p[0] + b * p[1] - c for p in poly]
    for i in range(n):
        p = poly[i]
        q = poly[(i + 1) % n]
        fp = f[i]
        fq = f[(i + 1) % n]
        if fp <= 0:
            out.append(p)
        if (fp < 0 and fq > 0) or (fp > 0 and fq < 0):
            t = fp / (fp - fq)
            out.append((p[0] + t * (q[0] - p[0]), p[1] + t * (q[1] - p[1])))
    return out


def cell(hull, p, others):
    """Points of the hull at least as close to p as to every q in others."""
    poly = list(hull)
    px, py = p
    for q in others:
        qx, qy = q
        if (qx, qy) == (px, py):
            raise ValueError("coincident sensors")
        # |x-p|^2 <= |x-q|^2   <=>   2 (q-p).x <= |q|^2 - |p|^2
        a = 2 * (qx - px)
        b = 2 * (qy - py)
        c = qx * qx + qy * qy - px * px - py * py
        poly = clip_halfplane(poly, a, b, c)
        if len(poly) < 3:
            return []
    return poly


def tessellate(sensors, boundary):
    """Exact nearest-sensor tessellation.

    Returns dict(hull=[...], hull_area=Fraction, indices=[...],
                 cells={index: polygon}, weights={index: Fraction}).
    ``indices`` are the positions (in ``sensors``) of the sensors strictly
    inside the hull, in increasing order.
    """
    hull = convex_hull(boundary)
    total = shoelace(hull)
    pts = [_pt(s) for s in sensors]
    indices = [i for i, p in enumerate(pts) if strictly_inside(p, hull)]
    cells, weights = {}, {}
    for i in indices:
        others = [pts[j] for j in indices if j != i]
        poly = cell(hull, pts[i], others)
        cells[i] = poly
        weights[i] = shoelace(poly) / total if total else None
    return dict(hull=hull, hull_area=total, indices=indices, cells=cells, weights=weights)


def weights(sensors, boundary):
    t = tessellate(sensors, boundary)
    return t["indices"], [t["weights"][i] for i in t["indices"]]


# ---- degeneracy predicates used to describe / validate alphabets -----------

def collinear(a, b, c):
    return cross(_pt(a), _pt(b), _pt(c)) == 0


def cocircular(a, b, c, d):
    """Exact in-circle determinant == 0."""
    a, b, c, d = _pt(a), _pt(b), _pt(c), _pt(d)
    rows = []
    for p in (a, b, c):
        dx, dy = p[0] - d[0], p[1] - d[1]
        rows.append((dx, dy, dx * dx + dy * dy))
    (a1, a2, a3), (b1, b2, b3), (c1, c2, c3) = rows
    det = a1 * (b2 * c3 - b3 * c2) - a2 * (b1 * c3 - b3 * c1) + a3 * (b1 * c2 - b2 * c1)
    return det == 0
