"""Reference model of the dissimilar-time-step policies and of the Nyquist guard (C03).

Written from the property statement, not from the code:

* ``frequency_domain_resampling`` processes every recording;
* ``keeping_smallest_time_step`` retains exactly the recordings whose time step is the
  smallest one present, in their original order;
* ``keeping_majority_time_step`` retains exactly the recordings of *a* most frequent time
  step, in their original order.  On a tie every maximal class is an admissible answer,
  but the answer must be a single class - hence a *list of candidates*;
* centre frequencies above the Nyquist frequency 1/(2 dt) of a *processed* recording must
  be refused; recordings that the policy dropped do not count.

No hvsrpy, numpy.fft or scipy imports.
"""
from fractions import Fraction

POLICIES = ("frequency_domain_resampling", "keeping_smallest_time_step", "keeping_majority_time_step")
KNIFE = 1e-9


def retained_candidates(dts, policy):
    """-> list of admissible retained index tuples (each in original order)."""
    idx = tuple(range(len(dts)))
    if not dts:
        return [()]
    if policy == "frequency_domain_resampling":
        return [idx]
    if policy == "keeping_smallest_time_step":
        smallest = None
        for dt in dts:
            if smallest is None or dt < smallest:
                smallest = dt
        return [tuple(i for i in idx if dts[i] == smallest)]
    if policy == "keeping_majority_time_step":
        classes = []
        for dt in dts:
            if dt not in classes:
                classes.append(dt)
        counts = [sum(1 for x in dts if x == c) for c in classes]
        top = max(counts)
        return [tuple(i for i in idx if dts[i] == c) for c, n in zip(classes, counts) if n == top]
    raise KeyError(policy)


def nyquist_decision(processed_dts, centre_frequencies):
    """'refuse' if some centre lies above the Nyquist frequency of some processed recording,
    'accept' if every centre is below every such Nyquist frequency, 'knife' if the largest
    centre is within 1e-9 (relative) of the smallest Nyquist frequency.  Exact rational
    arithmetic on the given doubles."""
    fmax = max(Fraction(float(f)) for f in centre_frequencies)
    dtmax = max(Fraction(float(dt)) for dt in processed_dts)
    # fmax > 1/(2 dt)  <=>  2 dt fmax > 1
    x = 2 * dtmax * fmax
    if abs(x - 1) <= Fraction(KNIFE):
        return "knife"
    return "refuse" if x > 1 else "accept"
