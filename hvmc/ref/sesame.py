"""SESAME (2004) reliability and clarity criteria, written from the guideline.

No hvsrpy, no scipy, no numpy: plain Python sequences and ``math``.

Guideline (SESAME European research project, WP12 - Deliverable D23.12,
"Guidelines for the implementation of the H/V spectral ratio technique on
ambient vibrations", December 2004), section "criteria for a reliable H/V
curve" and "criteria for a clear H/V peak":

reliability  i)   f0 > 10 / lw
             ii)  nc(f0) = lw * nw * f0 > 200
             iii) sigma_A(f) < 2 for 0.5 f0 < f < 2 f0   if f0 > 0.5 Hz
                  sigma_A(f) < 3 for 0.5 f0 < f < 2 f0   otherwise
clarity      i)   there is f- in [f0/4, f0] with A(f-) < A0/2
             ii)  there is f+ in [f0, 4 f0] with A(f+) < A0/2
             iii) A0 > 2
             iv)  fpeak[A(f) * sigma_A(f)^(+1)] and fpeak[A(f) * sigma_A(f)^(-1)]
                  are both within +-5 % of f0
             v)   sigma_f < epsilon(f0)
             vi)  sigma_A(f0) < theta(f0)

    f0 [Hz]        < 0.2     0.2-0.5   0.5-1.0   1.0-2.0   > 2.0
    epsilon [Hz]   0.25 f0   0.20 f0   0.15 f0   0.10 f0   0.05 f0
    theta          3.0       2.5       2.0       1.78      1.58

with lw the window length, nw the number of windows, A the mean H/V curve,
A0 = A(f0), sigma_A(f) = exp(std of ln H/V at f) the factor by which the mean
curve is multiplied/divided, sigma_f the standard deviation of f0.

Readings that the guideline leaves open (DESIGN C16):

* the table rows are half-open bands [lo, hi): 0.2 -> second column, 2.0 -> last;
* criterion iii literally: f0 > 0.5 Hz -> 2, anything else -> 3;
* a grid frequency that sits on an interval limit (f0/4, 4 f0, 0.5 f0, 2 f0,
  0.95 f0, 1.05 f0) and a value that sits on a threshold are *knife-edge*:
  both verdicts are acceptable.

Every criterion therefore returns a **set of acceptable verdicts**: {1}, {0}
or {0, 1}.  ``f0`` is the highest interior local maximum of the mean curve that
is handed in (``peak``); the search range is applied beforehand with ``trim``
(nearest samples, inclusive).
"""
import math

from hvmc.ref import peaks as RP

REL = 1e-9          # knife-edge guard, relative

PASS = frozenset([1])
FAIL = frozenset([0])
BOTH = frozenset([0, 1])

# (upper edge of the band, epsilon / f0, theta)
TABLE = ((0.2, 0.25, 3.0),
         (0.5, 0.20, 2.5),
         (1.0, 0.15, 2.0),
         (2.0, 0.10, 1.78),
         (math.inf, 0.05, 1.58))


# ---------------------------------------------------------------------------
# small helpers

def _near(a, b):
    """a and b finite; True when they differ by at most REL relative."""
    d = a - b
    if d < 0.0:
        d = -d
    if a < 0.0:
        a = -a
    if b < 0.0:
        b = -b
    return d <= REL * (a if a > b else b)


def lt(a, b):
    """Acceptable verdicts of the claim a < b."""
    if _near(a, b):
        return BOTH
    return PASS if a < b else FAIL


def gt(a, b):
    return lt(b, a)


def _union(sets):
    out = set()
    for s in sets:
        out |= s
    return frozenset(out)


def _and(a, b):
    return frozenset(int(x and y) for x in a for y in b)


def members(frequency, lo, hi):
    """Indices of samples inside the interval with limits lo < hi.

    Returns (sure, optional): ``sure`` are strictly inside and clear of both
    limits, ``optional`` sit on a limit (within the guard) - whether the
    interval is read open or closed there, or which way rounding went, is not
    pinned, so they may or may not count.
    """
    sure, optional = [], []
    for i, f in enumerate(frequency):
        if _near(f, lo) or _near(f, hi):
            optional.append(i)
        elif lo < f < hi:
            sure.append(i)
    return sure, optional


def exists_below(values, sure, optional, threshold):
    """Verdicts of: some sample of the interval has value < threshold."""
    res = [lt(values[i], threshold) for i in sure]
    if any(r == PASS for r in res):
        return PASS
    maybe = any(r == BOTH for r in res)
    maybe = maybe or any(lt(values[i], threshold) != FAIL for i in optional)
    return BOTH if maybe else FAIL


def all_below(values, sure, optional, threshold):
    """Verdicts of: every sample of the interval has value < threshold."""
    res = [lt(values[i], threshold) for i in sure]
    if any(r == FAIL for r in res):
        return FAIL
    maybe = any(r == BOTH for r in res)
    maybe = maybe or any(lt(values[i], threshold) != PASS for i in optional)
    return BOTH if maybe else PASS


# ---------------------------------------------------------------------------
# search range and peak

def _nearest_candidates(frequency, value):
    """Samples (almost) equally nearest to value; more than one = knife-edge."""
    ds = [abs(f - value) for f in frequency]
    m = min(ds)
    scale = max(abs(value), abs(frequency[-1] - frequency[0]))
    return [i for i, d in enumerate(ds) if d - m <= 1e-12 * scale]


def trim(frequency, search_range):
    """Index slices [lo, hi) selected by a search range in Hz.

    (None, None) keeps everything.  Otherwise a missing limit defaults to the
    lowest / highest frequency, the limits are sorted, and the slice runs from
    the sample nearest to the lower limit to the sample nearest to the upper
    limit, both included (as sesame.trim_curve).  A limit that is equidistant
    between two samples is knife-edge: every candidate slice is returned.
    """
    n = len(frequency)
    a, b = search_range
    if a is None and b is None:
        return [(0, n)]
    a = min(frequency) if a is None else float(a)
    b = max(frequency) if b is None else float(b)
    lo_v, hi_v = min(a, b), max(a, b)
    out = []
    for lo in _nearest_candidates(frequency, lo_v):
        for hi in _nearest_candidates(frequency, hi_v):
            out.append((lo, hi + 1))
    return out


def top_maxima(curve):
    """(runs, ambiguous): the highest interior local maxima of the curve.

    ``runs`` is the list of (l, r) sample runs whose height is (within the
    guard) the largest among all interior local maxima; empty when the curve
    has no interior local maximum.  ``ambiguous`` is True when two neighbouring
    samples with different values are closer than the guard, i.e. when the set
    of local maxima itself depends on rounding.
    """
    ambiguous = False
    for i in range(len(curve) - 1):
        if curve[i] != curve[i + 1] and _near(curve[i], curve[i + 1]):
            ambiguous = True
    maxima = RP.local_maxima(curve)
    if not maxima:
        return [], ambiguous
    best = max(curve[l] for l, _ in maxima)
    return [(l, r) for l, r in maxima if curve[l] == best or _near(curve[l], best)], ambiguous


def peak(mean_curve):
    """Index of *the* peak of the mean curve, or None.

    None when the curve has no interior local maximum, or when the highest one
    is not unique / flat-topped / rounding-dependent (the statement speaks of
    "the peak"; such curves are outside its quantifier).
    """
    runs, ambiguous = top_maxima(mean_curve)
    if ambiguous or len(runs) != 1:
        return None
    l, r = runs[0]
    if l != r:
        return None
    return l


def peak_candidates(mean_curve):
    """Samples that may be called *the* peak of the mean curve, or None.

    As ``peak``, but a flat-topped highest maximum (a run of exactly equal samples) is admitted: the statement
    does not say which sample of a flat top is the peak, so every sample of the run is a candidate (weakest
    reading; the middle one, (l+r)//2, comes first).  None when there is no interior local maximum or when the
    highest one is not unique / rounding-dependent.  Samples outside the run that merely carry the same value
    (an end sample, a sample on a monotone stretch) are NOT peaks and never candidates.
    """
    runs, ambiguous = top_maxima(mean_curve)
    if ambiguous or len(runs) != 1:
        return None
    l, r = runs[0]
    mid = (l + r) // 2
    return [mid] + [i for i in range(l, r + 1) if i != mid]


# ---------------------------------------------------------------------------
# table

def table_rows(f0):
    """Acceptable (epsilon_in_hz, theta) pairs for f0; one unless f0 is within
    the guard of (but not exactly on) a band edge."""
    rows = []
    lower = 0.0
    for hi, eps, theta in TABLE:
        exact = lower <= f0 < hi
        fuzzy = ((not math.isinf(hi) and f0 != hi and _near(f0, hi))
                 or (lower != 0.0 and f0 != lower and _near(f0, lower)))
        if exact or fuzzy:
            rows.append((eps * f0, theta))
        lower = hi
    return rows


def sigma_a(std_curve):
    """sigma_A(f): the lognormal standard deviation as a multiplicative factor."""
    return [math.exp(s) for s in std_curve]


# ---------------------------------------------------------------------------
# the nine criteria

def reliability_i(windowlength, f0):
    return gt(f0, 10.0 / windowlength)


def reliability_ii(windowlength, window_count, f0):
    return gt(windowlength * window_count * f0, 200.0)


def reliability_iii(frequency, std_curve, i0):
    f0 = frequency[i0]
    sa = sigma_a(std_curve)
    sure, optional = members(frequency, 0.5 * f0, 2.0 * f0)
    if f0 != 0.5 and _near(f0, 0.5):
        thresholds = (2.0, 3.0)
    else:
        thresholds = (2.0,) if f0 > 0.5 else (3.0,)
    return _union(all_below(sa, sure, optional, t) for t in thresholds)


def reliability(windowlength, window_count, frequency, mean_curve, std_curve, i0):
    """[set, set, set] of acceptable verdicts of reliability i), ii), iii)."""
    f0 = frequency[i0]
    return [reliability_i(windowlength, f0),
            reliability_ii(windowlength, window_count, f0),
            reliability_iii(frequency, std_curve, i0)]


def sigma_curve_peaks(frequency, mean_curve, std_curve, sign):
    """Candidate peak samples of mean * sigma_A^sign (sign = +1 or -1).

    Returns (candidates, ambiguous).  ``candidates`` lists every sample of
    every highest interior local maximum (position inside a flat top and the
    choice between equally high maxima are not pinned); empty = the curve has
    no peak.
    """
    curve = [a * math.exp(sign * s) for a, s in zip(mean_curve, std_curve)]
    # equal inputs give equal outputs in any implementation; different inputs
    # whose outputs almost coincide make the maxima rounding-dependent.
    ambiguous = False
    for i in range(len(curve) - 1):
        same_in = mean_curve[i] == mean_curve[i + 1] and std_curve[i] == std_curve[i + 1]
        if not same_in and _near(curve[i], curve[i + 1]):
            ambiguous = True
    maxima = RP.local_maxima(curve)
    if not maxima:
        return [], ambiguous
    best = max(curve[l] for l, _ in maxima)
    cands = []
    for l, r in maxima:
        if curve[l] == best or _near(curve[l], best):
            cands.extend(range(l, r + 1))
    return cands, ambiguous


def within_5_percent(f, f0):
    """Acceptable verdicts of: f is within +-5 % of f0."""
    lo, hi = 0.95 * f0, 1.05 * f0
    if _near(f, lo) or _near(f, hi):
        return BOTH
    return PASS if lo < f < hi else FAIL


def clarity_v(fn_std, f0):
    return _union(lt(fn_std, eps) for eps, _ in table_rows(f0))


def clarity(frequency, mean_curve, std_curve, fn_std, i0):
    """([six sets of acceptable verdicts], info) of clarity i) ... vi).

    info: dict(f0, a0, flank_low_empty, flank_high_empty, no_sigma_peak,
    sigma_peak_ambiguous, f_plus, f_minus).
    """
    f0 = frequency[i0]
    a0 = mean_curve[i0]
    half = a0 / 2.0

    sure, optional = members(frequency, f0 / 4.0, f0)
    c1 = exists_below(mean_curve, sure, optional, half)
    low_empty = not sure        # no sample clearly inside (f0/4, f0)
    sure_hi, optional_hi = members(frequency, f0, 4.0 * f0)
    c2 = exists_below(mean_curve, sure_hi, optional_hi, half)
    high_empty = not sure_hi    # no sample clearly inside (f0, 4 f0)

    c3 = gt(a0, 2.0)

    plus, amb_p = sigma_curve_peaks(frequency, mean_curve, std_curve, +1)
    minus, amb_m = sigma_curve_peaks(frequency, mean_curve, std_curve, -1)
    if amb_p or amb_m:
        c4 = BOTH
    elif not plus or not minus:
        c4 = FAIL           # a curve without peak has no peak within 5 % of f0
    else:
        vp = _union(within_5_percent(frequency[i], f0) for i in plus)
        vm = _union(within_5_percent(frequency[i], f0) for i in minus)
        c4 = _and(vp, vm)

    c5 = clarity_v(fn_std, f0)
    c6 = _union(lt(math.exp(std_curve[i0]), theta) for _, theta in table_rows(f0))

    info = dict(f0=f0, a0=a0, flank_low_empty=low_empty, flank_high_empty=high_empty,
                no_sigma_peak=(not plus or not minus) and not (amb_p or amb_m),
                sigma_peak_ambiguous=bool(amb_p or amb_m),
                f_plus=[frequency[i] for i in plus], f_minus=[frequency[i] for i in minus])
    return [c1, c2, c3, c4, c5, c6], info
