"""Explicit zero-padded discrete Fourier transform by matrix product.

X[k] = sum_j x[j] exp(-2 pi i j k / n),  k = 0 .. n//2,  for a signal of
L <= n samples (samples j >= L are zero).  Independent of numpy.fft and of
rfft's ``n`` semantics (which *truncates* when n < L): asking for n < L is an
error here.
"""
import numpy as np


def rdft(x, n):
    x = np.asarray(x, dtype=float)
    L = len(x)
    n = int(n)
    if n < L:
        raise ValueError(f"n={n} is smaller than the signal length {L}: a DFT of the whole "
                         f"window cannot be shorter than the window")
    k = np.arange(n // 2 + 1, dtype=np.int64)[:, None]
    j = np.arange(L, dtype=np.int64)[None, :]
    phase = (k * j) % n                     # exact reduction keeps the argument small
    return np.exp(-2j * np.pi * phase / n) @ x


def rfreq(n, dt):
    return np.arange(int(n) // 2 + 1) / (int(n) * dt)
