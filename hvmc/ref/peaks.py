"""Plateau-aware local maxima and the search-range oracle (no scipy, no hvsrpy).

A *local maximum* of a sampled curve is a maximal run of equal samples
[l, r] with l >= 1, r <= n-2, y[l-1] < y[l] and y[r+1] < y[r]; its position is
the middle sample (l+r)//2 (the convention of scipy.signal.find_peaks, which
the statement does not pin - callers that compare positions accept any sample
of the plateau).
"""


def local_maxima(y):
    """List of (l, r) index runs that are strict local maxima of y."""
    n = len(y)
    out = []
    i = 1
    while i < n - 1:
        if y[i - 1] < y[i]:
            r = i
            while r + 1 < n and y[r + 1] == y[i]:
                r += 1
            if r < n - 1 and y[r + 1] < y[i]:
                out.append((i, r))
            i = r + 1
        else:
            i += 1
    return out


def nearest_index(frequency, value):
    """Index of the sample nearest to value (first one on ties)."""
    best, besti = None, None
    for i, f in enumerate(frequency):
        d = abs(f - value)
        if best is None or d < best:
            best, besti = d, i
    return besti


def tie_at_nearest(frequency, value, rel=1e-12):
    """True when two samples are (almost) equally near to value: knife-edge."""
    ds = sorted(abs(f - value) for f in frequency)
    if len(ds) < 2:
        return False
    scale = max(abs(value), abs(frequency[-1] - frequency[0]), 1e-300)
    return abs(ds[1] - ds[0]) <= rel * scale


def range_indices(frequency, search_range):
    """(lo, hi) where lo/hi are the samples nearest to the limits; None limits
    map to -1 (before the first sample) and n (after the last)."""
    lo_v, hi_v = search_range
    n = len(frequency)
    lo = -1 if lo_v is None else nearest_index(frequency, lo_v)
    hi = n if hi_v is None else nearest_index(frequency, hi_v)
    return lo, hi
