"""The seven smoothing kernels as dense weight matrices W[fc, f].

Written from the published formulas with ``math`` only (no hvsrpy, no
numpy.fft, no scipy.signal; numpy is used to hand the matrix back).

Shapes (published):

* konno_and_ohmachi   w = (sin x / x)^4,  x = b log10(f/fc)        [Konno & Ohmachi 1998]
* parzen              w = (sin x / x)^4,  x = a (f-fc) / b,  a = 280 pi / 302
                                                                   [Konno & Ohmachi 1995]
* linear_rectangular  w = 1                      in f
* linear_triangular   w = 1 - |f-fc| / (b/2)     in f
* log_rectangular     w = 1                      in log10 f
* log_triangular      w = 1 - |log10 f/fc| / (b/2)
* savitzky_and_golay  least-squares quadratic/cubic fit over m equally spaced
                      points evaluated at the centre point [Savitzky & Golay 1964];
                      the weights are obtained here by solving the normal
                      equations exactly (fractions), not from the closed form.

Supports (not in the publications; pinned as DESIGN C02 says, limits inclusive):

* konno_and_ohmachi   |log10 f/fc| <= 3/b
* parzen              |f - fc|     <= sqrt(6) a / b
* linear_*            |f - fc|     <= b/2
* log_*               |log10 f/fc| <= b/2
* savitzky_and_golay  the m bins around the bin nearest to fc, and only where
                      that whole window lies above the 0 Hz bin and inside the grid

Every row is divided by its weight sum; a row whose window holds no sample (or
whose weight sum is not positive) is all zero; samples with f < 1e-6 (the 0 Hz
bin) never contribute and centres fc < 1e-6 give a zero row.

Knife edges.  A sample whose distance from the centre is within 1e-9 (relative)
of the support limit may legitimately be inside or outside; a Savitzky-Golay
centre within 1e-9 of the middle between two bins may be assigned to either.
``row_info`` therefore returns *every* admissible row (``alternatives``); the
first alternative is the "limits inclusive / lower bin" one and is what
``matrix`` returns, together with a mask of the rows that have alternatives.

Exact window ends (``row_info(..., closed_ends=True)``).  The guard above exists
because a floating-point comparison near the limit may legitimately round either
way.  Where the tie is EXACT - in rational arithmetic on the given doubles the
sample's distance from the centre equals the half-width (linear kernels:
|f - fc| == b/2; log kernels: the half-width is a whole number k of decades and
f == fc 10^k or f 10^k == fc) - there is nothing to round: f - fc (resp. f / fc)
is computed without error by IEEE arithmetic, and the pinned support is closed, so
the sample IS inside.  With ``closed_ends=True`` such samples are listed under
``ends`` and ``certain`` instead of ``knife`` (kernels whose weight vanishes at the
end - the triangular ones - and Parzen, whose half-width is irrational, keep the
guard).  The default (False) is the behaviour other checks were built on.
"""
import itertools
import math
from fractions import Fraction

import numpy as np

OPERATORS = ("konno_and_ohmachi", "parzen", "savitzky_and_golay",
             "linear_rectangular", "log_rectangular",
             "linear_triangular", "log_triangular")
NONNEGATIVE = tuple(o for o in OPERATORS if o != "savitzky_and_golay")

F_MIN = 1e-6            # f < F_MIN and fc < F_MIN are excluded
KNIFE = 1e-9
PARZEN_A = 280.0 * math.pi / 302.0
SQRT6 = math.sqrt(6.0)


def _sinc4(x):
    if x == 0.0:
        return 1.0
    s = math.sin(x) / x
    return s * s * s * s


def half_width(op, bw):
    """Support half-width (Hz for the linear kernels, decades for the log ones)."""
    if op == "konno_and_ohmachi":
        return 3.0 / bw
    if op == "parzen":
        return SQRT6 * PARZEN_A / bw
    if op in ("linear_rectangular", "linear_triangular", "log_rectangular", "log_triangular"):
        return bw / 2.0
    raise KeyError(op)


def _is_log(op):
    return op in ("konno_and_ohmachi", "log_rectangular", "log_triangular")


def _distance(op, f, fc):
    """Signed distance of sample f from centre fc in the kernel's own axis."""
    if _is_log(op):
        return math.log10(f / fc)
    return f - fc


def _weight(op, f, fc, bw):
    d = _distance(op, f, fc)
    if op == "konno_and_ohmachi":
        return _sinc4(bw * d)
    if op == "parzen":
        return _sinc4(PARZEN_A * d / bw)
    if op in ("linear_rectangular", "log_rectangular"):
        return 1.0
    if op in ("linear_triangular", "log_triangular"):
        return 1.0 - abs(d) / (bw / 2.0)
    raise KeyError(op)


def exact_window_end(op, f, fc, bw):
    """True if sample f lies EXACTLY on an end of the closed window of centre fc:
    decided in rational arithmetic on the doubles handed over, no rounding."""
    F, C, B = Fraction(float(f)), Fraction(float(fc)), Fraction(float(bw))
    if op in ("linear_rectangular", "linear_triangular"):
        return abs(F - C) == B / 2
    if op == "parzen":                      # sqrt(6) 280 pi / (302 b) is irrational
        return False
    L = Fraction(3) / B if op == "konno_and_ohmachi" else B / 2
    if L.denominator != 1 or not 0 < L <= 22:      # 10**L is rational only for whole L
        return False
    p = Fraction(10) ** int(L)
    return F == C * p or F * p == C


def _normalise(nf, idx, w):
    row = [0.0] * nf
    if not idx:
        return row
    s = math.fsum(w[i] for i in idx)
    if s > 0.0:
        for i in idx:
            row[i] = w[i] / s
    return row


def _dedup(rows):
    out = []
    for r in rows:
        if r not in out:
            out.append(r)
    return out


# ---------------------------------------------------------------------------
# Savitzky-Golay

def sg_weights(m):
    """Weights of the least-squares quadratic (= cubic, by symmetry) smoothing
    filter over m equally spaced points, evaluated at the middle point.

    Solves the normal equations (A^T A) c = A^T e_j exactly for every unit
    vector e_j; the smoothed value is c[0].
    """
    m = int(m)
    if m % 2 != 1 or m < 3:
        raise ValueError("Savitzky-Golay needs an odd number of points >= 3")
    h = (m - 1) // 2
    xs = list(range(-h, h + 1))
    p = 3                                                   # 1, x, x^2
    ata = [[Fraction(sum(x ** (r + c) for x in xs)) for c in range(p)] for r in range(p)]
    weights = []
    for j, xj in enumerate(xs):
        rhs = [Fraction(xj ** r) for r in range(p)]
        a = [row[:] + [rhs[r]] for r, row in enumerate(ata)]
        for col in range(p):                                # Gauss-Jordan, exact
            piv = next(r for r in range(col, p) if a[r][col] != 0)
            a[col], a[piv] = a[piv], a[col]
            pv = a[col][col]
            a[col] = [v / pv for v in a[col]]
            for r in range(p):
                if r != col and a[r][col] != 0:
                    fac = a[r][col]
                    a[r] = [vr - fac * vc for vr, vc in zip(a[r], a[col])]
        weights.append(a[0][p])
    return [float(w) for w in weights]


def _sg_row(nf, k, h, w):
    row = [0.0] * nf
    if k - h >= 1 and k + h <= nf - 1:
        for j in range(-h, h + 1):
            row[k + j] = w[j + h]
    return row


def _sg_info(freqs, fc, m):
    nf = len(freqs)
    w = sg_weights(m)
    h = (int(m) - 1) // 2
    info = dict(certain=[], knife=[], dc_in_reach=False, centre_bins=[], fits=[], ends=[])
    if fc < F_MIN:
        info["alternatives"] = [[0.0] * nf]
        return info
    df = freqs[1] - freqs[0]
    t = (fc - freqs[0]) / df
    lo = math.floor(t)
    frac = t - lo
    if abs(frac - 0.5) <= KNIFE * max(1.0, abs(t)):
        bins = [lo, lo + 1]
    else:
        bins = [lo if frac < 0.5 else lo + 1]
    rows = [_sg_row(nf, k, h, w) for k in bins]
    info["centre_bins"] = bins
    info["fits"] = [bool(k - h >= 1 and k + h <= nf - 1) for k in bins]
    info["dc_in_reach"] = any(k - h <= 0 <= k + h and k + h <= nf - 1 for k in bins)
    if len(bins) == 1 and info["fits"][0]:
        info["certain"] = list(range(bins[0] - h, bins[0] + h + 1))
    info["alternatives"] = _dedup(rows)
    return info


# ---------------------------------------------------------------------------
# public API

def row_info(op, freqs, fc, bw, closed_ends=False):
    """Everything the reference says about one centre frequency.

    closed_ends: samples EXACTLY on a window end (see module docstring) are inside
    (``certain`` and ``ends``) instead of knife-edge.

    Returns a dict with
      alternatives : list of admissible normalised rows (lists of len(freqs) floats)
      certain      : indices of samples clearly inside the support
      knife        : indices of samples on a support limit (either way accepted)
      dc_in_reach  : True if the 0 Hz bin would lie inside the window were it not excluded
    (for savitzky_and_golay additionally centre_bins and fits).
    """
    freqs = [float(f) for f in freqs]
    fc = float(fc)
    nf = len(freqs)
    if op == "savitzky_and_golay":
        return _sg_info(freqs, fc, bw)
    bw = float(bw)
    info = dict(certain=[], knife=[], dc_in_reach=False, ends=[])
    if fc < F_MIN:
        info["alternatives"] = [[0.0] * nf]
        return info
    limit = half_width(op, bw)
    w = [0.0] * nf
    for i, f in enumerate(freqs):
        if f < F_MIN:
            if not _is_log(op) and abs(f - fc) <= limit:
                info["dc_in_reach"] = True
            continue
        d = abs(_distance(op, f, fc))
        scale = max(limit, 1.0) if _is_log(op) else max(limit, abs(f), abs(fc))
        if abs(d - limit) <= KNIFE * scale:
            if (closed_ends and op in ("konno_and_ohmachi", "linear_rectangular", "log_rectangular")
                    and exact_window_end(op, f, fc, bw)):
                info["certain"].append(i)
                info["ends"].append(i)
            else:
                info["knife"].append(i)
        elif d < limit:
            info["certain"].append(i)
        else:
            continue
        w[i] = _weight(op, f, fc, bw)
    alts = []
    k = info["knife"]
    for r in range(len(k), -1, -1):                         # all knife samples in first
        for sub in itertools.combinations(k, r):
            alts.append(_normalise(nf, sorted(info["certain"] + list(sub)), w))
    info["alternatives"] = _dedup(alts)
    info["raw_weights"] = w
    return info


def matrix(op, freqs, fcs, bw, closed_ends=False):
    """Dense reference matrix W[fc, f] and the mask of rows that are knife-edge
    (rows for which more than one outcome is admissible).  closed_ends: see row_info."""
    rows = []
    knife = []
    for fc in fcs:
        info = row_info(op, freqs, fc, bw, closed_ends=closed_ends)
        rows.append(info["alternatives"][0])
        knife.append(len(info["alternatives"]) > 1)
    return np.array(rows, dtype=float).reshape(len(rows), len(freqs)), np.array(knife, dtype=bool)


def smooth(op, freqs, spectrum, fcs, bw, closed_ends=False):
    """Reference smoothing of spectrum rows: out[row, fc] = sum_f W[fc, f] spectrum[row, f]."""
    W, knife = matrix(op, freqs, fcs, bw, closed_ends=closed_ends)
    out = [[math.fsum(W[c, j] * float(row[j]) for j in range(len(freqs))) for c in range(len(fcs))]
           for row in spectrum]
    return np.array(out, dtype=float).reshape(len(out), len(fcs)), knife
