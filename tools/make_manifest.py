#!/venv/bin/python
"""Regenerates /verif/MANIFEST.json from the table below and validates it."""
import json
import os

VERIF = os.path.dirname(os.path.dirname(os.path.abspath(__file__)))

E1 = "explicit-state BFS over operation histories of the real objects (bounded depth), invariant + reference model in every state"
E2 = "bounded-exhaustive enumeration of a finite configuration space (all cases within k deviations / full product), each executed on the real code against a reference model"
E3 = "exhaustive enumeration of chunk->worker schedules of a virtual multiprocessing.Pool with real forked workers, conformance-checked against the real Pool"

CHECKS = {
    "C08": dict(
        engine="E1", section="4/C08",
        text="Every sequence (depth 1-3) of search-range updates from a menu of 14 ranges x 2 kwargs is applied to real "
             "HvsrCurve/HvsrDiffuseField/HvsrTraditional/HvsrAzimuthal objects built from every curve over {1,2,3} of "
             "length 6-7 and from products of named curve shapes; in every reachable state each reported peak, each "
             "window's membership in the statistics and each mean-curve peak is judged by a plateau-aware local-maximum "
             "oracle, and states merged by (range, kwargs) must be observably identical (no stale peaks).",
        note="Peaks on the one or two samples adjacent to a range limit may or may not be candidates (the statement does "
             "not pin the boundary convention); position inside a flat-topped peak is not pinned; curves outside the "
             "alphabets and histories beyond depth 3 are not covered."),
}

CHECKS["C05"] = dict(
    engine="E1", section="4/C05",
    text="BFS (depth 2-3) over histories of search-range updates, frequency-domain rejections, manual rejections and "
         "real maximum-value rejections coupled through hvsr= on real HvsrTraditional objects built from products of "
         "curve shapes; in every reachable state with >= 2 accepted windows every statistic accessor (both "
         "distributions and the 'log-normal' alias) is compared with math.fsum textbook estimators over exactly the "
         "accepted rows, with a fresh object built from the accepted windows alone, with the reciprocal (period) "
         "object and with the +n/-n symmetry.",
    note="Per-window peaks are taken from fresh HvsrCurve objects (judged by C08); curve sets outside the shape "
         "alphabet, more than 5 windows and histories beyond depth 3 are not covered.")

CHECKS["C06"] = dict(
    engine="E1", section="4/C06",
    text="BFS (depth 2) over histories of manual rejections, range updates and frequency_domain_window_rejection "
         "calls for every (n, max_iterations, distribution_fn, distribution_mc, range) of a finite menu on real "
         "HvsrTraditional and 2-azimuth HvsrAzimuthal objects; every rejection transition is stepped alongside a "
         "reference implementation of the Cox et al. loop and compared on the returned iteration count, the final "
         "masks and, iteration by iteration, the DEBUG trace logged by the implementation; independently it checks "
         "that no window is re-accepted, count <= max_iterations, and invariance under window permutation and "
         "amplitude rescaling.",
    note="Calls on which the reference leaves the algorithm's domain (fewer than two peaks, mean curve without peak) "
         "are only checked for monotonicity; threshold comparisons within 1e-9 are knife-edge and not compared; "
         "per-window and mean-curve peaks come from HvsrCurve (judged by C08); the exact-zero early return follows "
         "the original implementation.")

CHECKS["C19"] = dict(
    engine="E3", section="4/C19 and 2.3",
    text="The real hvsrpy.cli.cli is invoked in-process with multiprocessing.Pool replaced by a virtual pool that uses "
         "CPython's own chunker and pickler and real forked workers; for every ordered batch of 1-3 (quick) / 1-4 "
         "(thorough) distinct miniSEED inputs with different sampling rates/lengths, every --nproc (and cpu_count "
         "answer when omitted), every settings combination and EVERY chunk->worker assignment (restricted-growth "
         "strings), each <stem>.csv must be byte-identical to read->preprocess->process->write for that file alone "
         "in a fresh process; files written by different chunks must be disjoint; three or four batches are also run "
         "through the real multiprocessing.Pool and must coincide with one enumerated schedule and its outputs.",
    note="Interleavings between worker processes are reduced by the checked independence argument (disjoint output "
         "files, no other shared state between processes), not enumerated; fork start method; inputs with distinct "
         "stems; obspy's miniSEED writer/reader trusted; four fixed input files.")
CHECKS["C02"] = dict(
    engine="E2", section="4/C02",
    text="For five FFT grids, all seven operators, three bandwidths each, six centre-frequency vectors (every bin "
         "incl. 0 Hz, midpoints, off-grid, below/above the grid, negative) and both the compiled functions and their "
         "interpreted sources, the operator's complete weight matrix is recovered from unit impulses and compared "
         "(1e-9) with an independently written published kernel (row-normalised, zero row for an empty window, DC bin "
         "excluded; Savitzky-Golay weights from an exact least-squares fit); constants, min/max bounds, cubic "
         "reproduction, even-m refusal, linearity, bitwise row independence and compiled==interpreted (1e-12) are "
         "checked on the same calls.",
    note="Supports are pinned to what the tree documents (DESIGN C02); a sample within 1e-9 of a support limit or a "
         "Savitzky-Golay centre midway between bins may fall either way; three bandwidths per operator, grids up to "
         "33 bins.")

NOT_APPLICABLE = []

PENDING = ["C01", "C02", "C03", "C04", "C05", "C06", "C07", "C09", "C10", "C11", "C12", "C13",
           "C14", "C15", "C16", "C17", "C18", "C19", "C20"]


def main():
    checks = []
    for pid in sorted(CHECKS):
        c = CHECKS[pid]
        eng = c["engine"]
        checks.append(dict(
            property_id=pid,
            quick_cmd=f"cd /verif && /venv/bin/python -m hvmc.run {pid} --tier quick",
            thorough_cmd=f"cd /verif && /venv/bin/python -m hvmc.run {pid} --tier thorough",
            evidence_file=f"/verif/evidence/{pid}.json",
            replay_cmd_template=f"cd /verif && /venv/bin/python -m hvmc.run {pid} --replay {{path}}",
            engine=eng,
            level_claimed=dict(category="model_checking", text=c["text"], design_ref="DESIGN.md section " + c["section"]),
            level_note=c["note"],
            technique={"E1": E1, "E2": E2, "E3": E3}[eng],
        ))
    na = list(NOT_APPLICABLE)
    for pid in PENDING:
        if pid not in CHECKS:
            na.append(dict(property_id=pid,
                           reason="check not built yet in this session (planned, see DESIGN.md section 4); "
                                  "not a statement that the technique cannot apply"))
    m = dict(
        version=1,
        setup_cmd="cd /verif && /venv/bin/python -m hvmc.setup",
        hooks=dict(guard="HVSRPY_VERIF",
                   enable="no source hooks: checks import hvsrpy from /repo's working tree (editable install) and "
                          "observe it at the public API / by replacing module attributes from the harness",
                   baseline_off_cmd="cd /repo && /venv/bin/python -m pytest -ra -q -p no:cacheprovider --timeout=900 "
                                    "--continue-on-collection-errors",
                   source_commits=[],
                   add_only=True),
        engines=[
            dict(name="E1", path="hvmc/engine/explorer.py", kind_free_text=E1,
                 serves_properties=[p for p in sorted(CHECKS) if CHECKS[p]["engine"] == "E1"]),
            dict(name="E2", path="hvmc/engine/product.py", kind_free_text=E2,
                 serves_properties=[p for p in sorted(CHECKS) if CHECKS[p]["engine"] == "E2"]),
            dict(name="E3", path="hvmc/engine/vpool.py", kind_free_text=E3,
                 serves_properties=[p for p in sorted(CHECKS) if CHECKS[p]["engine"] == "E3"]),
        ],
        checks=checks,
        notes="All checks execute the real hvsrpy code from /repo; see DESIGN.md. Known genuine defects that were not "
              "repaired are listed in known_findings.json and announced as KNOWN-FINDING lines.",
        not_applicable=na,
    )
    import jsonschema
    with open("/root/.vp/MANIFEST.schema.json") as f:
        jsonschema.validate(m, json.load(f))
    with open(os.path.join(VERIF, "MANIFEST.json"), "w") as f:
        json.dump(m, f, indent=1)
        f.write("\n")
    print("MANIFEST.json:", len(checks), "checks,", len(na), "not_applicable")


if __name__ == "__main__":
    main()
