#!/venv/bin/python
"""Regenerates /verif/MANIFEST.json from the table below and validates it."""
import json
import os

VERIF = os.path.dirname(os.path.dirname(os.path.abspath(__file__)))

E1 = "explicit-state BFS over operation histories of the real objects (bounded depth), invariant + reference model in every state"
E2 = "bounded-exhaustive enumeration of a finite configuration space (all cases within k deviations / full product), each executed on the real code against a reference model"
E3 = "exhaustive enumeration of chunk->worker schedules of a virtual multiprocessing.Pool with real forked workers, conformance-checked against the real Pool"

CHECKS = {
    "C08": dict(
        engine="E1", section="4/C08",
        text="Every sequence (depth 1-3) of search-range updates from a menu of 14 ranges x 2 kwargs is applied to real "
             "HvsrCurve/HvsrDiffuseField/HvsrTraditional/HvsrAzimuthal objects built from every curve over {1,2,3} of "
             "length 6-7 and from products of named curve shapes; in every reachable state each reported peak, each "
             "window's membership in the statistics and each mean-curve peak is judged by a plateau-aware local-maximum "
             "oracle, and states merged by (range, kwargs) must be observably identical (no stale peaks).",
        note="Peaks on the one or two samples adjacent to a range limit may or may not be candidates (the statement does "
             "not pin the boundary convention); position inside a flat-topped peak is not pinned; curves outside the "
             "alphabets and histories beyond depth 3 are not covered."),
}

CHECKS["C05"] = dict(
    engine="E1", section="4/C05",
    text="BFS (depth 2-3) over histories of search-range updates, frequency-domain rejections, manual rejections and "
         "real maximum-value rejections coupled through hvsr= on real HvsrTraditional objects built from products of "
         "curve shapes; in every reachable state with >= 2 accepted windows every statistic accessor (both "
         "distributions and the 'log-normal' alias) is compared with math.fsum textbook estimators over exactly the "
         "accepted rows, with a fresh object built from the accepted windows alone, with the reciprocal (period) "
         "object and with the +n/-n symmetry.",
    note="Per-window peaks are taken from fresh HvsrCurve objects (judged by C08); curve sets outside the shape "
         "alphabet, more than 5 windows and histories beyond depth 3 are not covered.")

CHECKS["C06"] = dict(
    engine="E1", section="4/C06",
    text="BFS (depth 2) over histories of manual rejections, range updates and frequency_domain_window_rejection "
         "calls for every (n, max_iterations, distribution_fn, distribution_mc, range) of a finite menu on real "
         "HvsrTraditional and 2-azimuth HvsrAzimuthal objects; every rejection transition is stepped alongside a "
         "reference implementation of the Cox et al. loop and compared on the returned iteration count, the final "
         "masks and, iteration by iteration, the DEBUG trace logged by the implementation; independently it checks "
         "that no window is re-accepted, count <= max_iterations, and invariance under window permutation and "
         "amplitude rescaling.",
    note="Calls on which the reference leaves the algorithm's domain (fewer than two peaks, mean curve without peak) "
         "are only checked for monotonicity; threshold comparisons within 1e-9 are knife-edge and not compared; "
         "per-window and mean-curve peaks come from HvsrCurve (judged by C08); the exact-zero early return follows "
         "the original implementation.")

CHECKS["C19"] = dict(
    engine="E3", section="4/C19 and 2.3",
    text="The real hvsrpy.cli.cli is invoked in-process with multiprocessing.Pool replaced by a virtual pool that uses "
         "CPython's own chunker and pickler and real forked workers; for every ordered batch of 1-3 (quick) / 1-4 "
         "(thorough) distinct miniSEED inputs with different sampling rates/lengths, every --nproc (and cpu_count "
         "answer when omitted), every settings combination and EVERY chunk->worker assignment (restricted-growth "
         "strings), each <stem>.csv must be byte-identical to read->preprocess->process->write for that file alone "
         "in a fresh process; files written by different chunks must be disjoint; three or four batches are also run "
         "through the real multiprocessing.Pool and must coincide with one enumerated schedule and its outputs.",
    note="Interleavings between worker processes are reduced by the checked independence argument (disjoint output "
         "files, no other shared state between processes), not enumerated; fork start method; inputs with distinct "
         "stems; obspy's miniSEED writer/reader trusted; four fixed input files.")
CHECKS["C02"] = dict(
    engine="E2", section="4/C02",
    text="For five FFT grids, all seven operators, three bandwidths each, six centre-frequency vectors (every bin "
         "incl. 0 Hz, midpoints, off-grid, below/above the grid, negative) and both the compiled functions and their "
         "interpreted sources, the operator's complete weight matrix is recovered from unit impulses and compared "
         "(1e-9) with an independently written published kernel (row-normalised, zero row for an empty window, DC bin "
         "excluded; Savitzky-Golay weights from an exact least-squares fit); constants, min/max bounds, cubic "
         "reproduction, even-m refusal, linearity, bitwise row independence and compiled==interpreted (1e-12) are "
         "checked on the same calls.",
    note="Supports are pinned to what the tree documents (DESIGN C02); a sample within 1e-9 of a support limit or a "
         "Savitzky-Golay centre midway between bins may fall either way; three bandwidths per operator, grids up to "
         "33 bins.")

CHECKS["C01"] = dict(
    engine="E2", section="4/C01",
    text="For each (three-component window, processing kind) root - 9 frequency-domain names, single_azimuth and its "
         "alias x 7 azimuths, RotDpp x 4 percentiles x 3 azimuth sets, azimuthal x 3 azimuth sets, diffuse field x 1-3 "
         "windows - every configuration of {14 operator/bandwidth pairs, 4 Tukey widths, 3 centre-frequency sets, 4 "
         "FFT requests} within 2 deviations of the default (quick) or the full product on the no-padding path "
         "(thorough) is run through the real process() and compared (1e-9) with an independent pipeline: Tukey from "
         "its definition -> explicit zero-padded DFT matrix -> closed-form combination -> reference kernel matrix -> "
         "ratio; plus never-truncating FFT length, common-factor invariance, horizontal/vertical scaling, the "
         "closed-form flat value for proportional components and bit-identical aliases.",
    note="The FFT length is read back from settings.fft_settings['n'] (required >= window length); configurations "
         "whose reference smoothed spectra are not strictly positive, centres that are knife-edge for a kernel support "
         "and centres whose smoothed spectrum is below 1e-6 of the largest raw amplitude (rounding noise) are not "
         "compared; padded-FFT cases only for one kind per formula on the first window.")
CHECKS["C07"] = dict(
    engine="E2", section="4/C07",
    text="Every reader (miniSEED in one or three files, SAC little/big/mixed endian, GCF, SAF, MiniShark, PEER) is run on "
         "files generated from known samples (distinct ramps per channel, int32 extremes, float32-inexact values); for "
         "each file configuration all 6 trace/file orders and every read option within k deviations of the default "
         "are executed: ns/ew/vt must equal the written samples (float32 for SAF/MiniShark after gain*conversion), dt "
         "the file's time step, degrees_from_north the explicit argument mod 360 else the file's metadata else 0; 61 "
         "malformed variants must raise; read() is compared element-wise with read_single over all lists of 1-3 "
         "recordings and all 9 None/value/list argument shapes.",
    note="Binary formats are written and parsed by obspy (trusted); the MiniShark layout is inferred from the reader "
         "(example file is empty); SAC dt compared at 1e-4 (float32 header); for PEER codes equidistant from north "
         "either horizontal may be north but ns and ew must be different files; k=2 quick, k=3-4 / full product "
         "thorough.")
CHECKS["C10"] = dict(
    engine="E2", section="4/C10",
    text="For 7 sampling rates (incl. 75, 150, 300 Hz), 6 decimal window lengths and 12 record lengths from k-1 to 5k+1 "
         "samples every window returned by TimeSeries.split, SeismicRecording3C.split and preprocess is located in a "
         "record with pairwise distinct samples and judged against an exact-rational tiling reference (start j*k, k+1 "
         "samples, one shared boundary sample, bit-identical samples, tail < one window, refusal of too-long windows, "
         "identical tiling of the three components); over the product of 4 corner pairs, 4 detrend modes, 3 "
         "orientations and 1 or 3 recordings preprocess equals bit for bit orient -> whole-record Butterworth -> split "
         "-> per-window detrend assembled from public primitives, the two observably wrong orders are shown to "
         "differ, and zero phase is established by time-reversal symmetry.",
    note="dt is the nearest double of 1/rate; the order oracle trusts the filter/detrend primitives and judges split "
         "separately; orientation placement is only checked to 1e-9 (not observable); for a record of exactly k "
         "samples both refusing and one short window are accepted.")
CHECKS["C13"] = dict(
    engine="E2", section="4/C13",
    text="The real sta_lta_window_rejection and maximum_value_window_rejection are run on every window list of length "
         "1-4 over eight envelope/scale window types with all component tuples, sta/lta lengths, two time steps, a 4x4 "
         "limit grid or ten thresholds, three amplitude factors and none / traditional / two-azimuth HVSR objects: the "
         "returned list must be an identity- and order-preserving sub-list, clear windows must match an independent "
         "STA/LTA reference, both masks on every azimuth must equal the selection, and the decision of a window must "
         "equal that of the one-window list, be scale invariant, monotone under widening limits and the conjunction "
         "of the single-component decisions.",
    note="Decisions are compared with the reference only where all plausible sample-count readings agree with margin "
         "1e-6 (0.01-0.4 % unclear); ties within 1e-9 undecided; both readings of 'overall largest' accepted for the "
         "normalised threshold; deviation-bounded per list (full product for one-window lists).")
CHECKS["C14"] = dict(
    engine="E2", section="4/C14",
    text="HvsrSpatial.spatial_weights/bounded_voronoi are run on every 4-, 5- and 6-subset of a 3x3 lattice (jittered "
         "and regular), 0-2 outside sensors, four convex-hull boundaries, every rotation/reversal of sensor order, "
         "translations to 1e4 extents, scales 1e-3..1e3, plus (nearly) collinear arrays, and compared with exact "
         "rational half-plane clipping (1e-9); montecarlo_fn is run for all four distribution combinations x "
         "generator menus x n_realizations x enumerated PCG64 seeds with mean/std recomputed from the returned "
         "realisations by math.fsum, weight-scale invariance, bitwise reproducibility and the zero-std closed form.",
    note="Two genuine defects on (nearly) collinear arrays are recorded in known_findings.json and announced as "
         "KNOWN-FINDING; sensors strictly inside or outside the hull; index order free; layouts beyond 6 interior "
         "lattice sensors and unseeded generators not explored.")
CHECKS["C16"] = dict(
    engine="E2", section="4/C16",
    text="Each of the 3 reliability and 6 clarity verdicts of hvsrpy.sesame is compared with a pure-Python transcription "
         "of the SESAME 2004 criteria and epsilon/theta table over six grids, f0 in {0.1..3 Hz} with the four band "
         "edges exactly on a sample, peak heights/flanks/second peaks, 16 std curves, window lengths/counts, sigma_f, "
         "nine search-range kinds and verbosity 0/1/2 (equal verdicts required); criterion ii monotone in length and "
         "count, criterion v monotone in sigma_f; a crash where the guideline gives a verdict is a violation.",
    note="f0 is the highest interior local maximum of the curve cut to the samples nearest the range limits; table rows "
         "half-open; ties (samples exactly on interval limits, values within 1e-9 of a threshold) accepted either way; "
         "with a search range a verdict may agree with either the trimmed- or whole-curve reading.")
CHECKS["C17"] = dict(
    engine="E2", section="4/C17",
    text="PSD, diffuse-field and PSD-preprocessing paths are executed on every configuration of two bounded spaces "
         "(quick: 3 deviations; thorough: full product): per component the one-sided PSD summed over 0<f<Nyquist must "
         "equal the time-domain mean square of the tapered window minus the 0 Hz and Nyquist terms over the taper's "
         "mean square (computed without any FFT); PSD scales with the square of the amplitude; multi-window PSD is the "
         "mean of single-window PSDs; smoothed PSDs equal the reference kernels applied to the unsmoothed PSD; diffuse "
         "field equals sqrt(smooth(Pns+Pew)/smooth(Pvt)); differentiation and flat/pole-zero response removal are "
         "compared with analytic images of window-periodic sinusoids or an explicit DFT.",
    note="FFT length as reported back by hvsrpy (>= L); Parseval constrains band sums, per-bin values are left to C01; "
         "Savitzky-Golay cases with undefined reference skipped and counted.")
CHECKS["C18"] = dict(
    engine="E1", section="4/C18",
    text="BFS (depth 2 quick / 3 thorough) over a menu of 20 operations (8 trims, 3 filters, 2 detrends, 3 tapers, 3 "
         "re-orientations, split->first window) on 18 real SeismicRecording3C roots; in every distinct state save->load "
         "must restore every sample bit for bit plus dt, orientation mod 360 and metadata content; every copy route "
         "must share no memory with its source and writes must stay invisible; 13 trim intervals on both trim methods "
         "must keep exactly samples nearest(start)..nearest(end) by exact integer arithmetic or raise IndexError with "
         "the samples untouched.",
    note="String metadata keys and finite JSON values; independence demanded of sample storage only; exact half-way "
         "times are knife-edge; alphabets and depth as stated.")

CHECKS["C11"] = dict(
    engine="E1", section="4/C11",
    text="BFS (depth 2-3) over histories of per-azimuth manual rejections, range updates, frequency-domain rejections "
         "and maximum-value rejections on real HvsrAzimuthal objects (1-3 azimuths x 2-4 windows); in every reachable "
         "state in which every azimuth has an accepted window and every accepted window has a peak, every accessor is "
         "compared with math.fsum estimators using w = 1/(azimuths x accepted windows of the azimuth) and the "
         "1 - sum(w^2) normalisation, and with the stated reductions: average of per-azimuth means, covariance "
         "diagonal = std^2, single azimuth = HvsrTraditional, equal counts = pooled unweighted, azimuth-order "
         "invariance, fresh object from the accepted windows.",
    note="Per-window peaks from fresh HvsrCurve objects (C08); standard deviations judged only where 1 - sum(w^2) > 0; "
         "states with an accepted peak-less window or an azimuth without accepted window are outside the quantifier "
         "(expanded, not judged).")
CHECKS["C12"] = dict(
    engine="E1", section="4/C12",
    text="The C05/C11 state graphs (plus one for HvsrDiffuseField) are explored from results of the real process() and "
         "from crafted curve sets carrying such a result's meta; in every reachable state with >= 2 accepted windows "
         "(per azimuth) and for both write-time distributions the object is written and read back: class, frequency "
         "and curves bit-identical, both masks, search range, kwargs, per-window peaks, azimuth values and every "
         "statistic accessor equal, the file's derived columns equal mean_curve/std_curve of the object written, and a "
         "second write of the read-back object reproduces the numeric block.",
    note="States in which the object itself cannot compute its mean/std curve (an azimuth whose accepted windows all "
         "lack a peak) are not writable and are skipped and counted; np.loadtxt is trusted to parse %.18e exactly.")

CHECKS["C20"] = dict(
    engine="E1", section="4/C20",
    text="The C05/C11 state graphs (and a diffuse-field one) are explored to depth 1-2; in every reachable state "
         "plot_single_panel_hvsr_curves is called for every combination of its 9 options within 1-2 deviations of the "
         "defaults, summarize_hvsr_statistics for the 4 distribution pairs, plot_seismic_recordings_3c, "
         "plot_pre_and_post_rejection and the three azimuthal figures (Agg); a deep snapshot of the object and "
         "recordings must be identical afterwards, also when the function raises, and the artists must carry the "
         "state: one accepted-/rejected-style line per accepted/rejected window with that window's curve, mean and "
         "+-1 std lines, mean-curve-peak and per-window peak markers, the fn band, and the table's fn/An rows and "
         "period row (lognormal median and log-std of the reciprocal peak frequencies via math.fsum).",
    note="Agg backend; artists identified by the style constants in DEFAULT_KWARGS and compared by data, not pixels; "
         "statistic artists judged only where the statistics are defined; contour meshes, the -1/+1 columns of the "
         "period row and the interactive manual_window_rejection are not covered.")

CHECKS["C03"] = dict(
    engine="E2", section="4/C03",
    text="Every list of 1-4 recordings drawn (with repetition, in every order) from a pool of distinguishable "
         "recordings at time steps 0.01/0.02/0.05 s is run through the real process() under each of the three "
         "dissimilar-time-step policies and four processing kinds at a fixed FFT length: exactly one row per "
         "recording that an independent policy model retains, in input order, at exactly the requested centres, "
         "finite and non-negative, each row bit-identical to processing that recording alone; centres above the "
         "Nyquist of a processed recording must raise, above the Nyquist of a dropped recording must not; all two-call "
         "histories on one settings object with explicit FFT length give the same second result as fresh settings; "
         "undefined or negative ratios must be refused.",
    note="At most 4 recordings and 3 time steps; majority ties accept any single maximal class; recordings are rebuilt "
         "per call (in-place tapering is C09's subject); histories with fft n=None excluded (C09 known finding).")
CHECKS["C04"] = dict(
    engine="E2", section="4/C04",
    text="For every combination of deployed orientation, target and second target from {0,30,90,200,359,-45,400,725} "
         "orient_sensor_to is compared sample by sample with the clockwise-from-north rotation written from its "
         "definition (vertical bit-identical, energy, label mod 360, composition, inverse); polarised motion recorded "
         "at any deployment angle reappears on its true azimuth after re-orientation; over every configuration within "
         "2 deviations (quick) / full product (thorough) single-azimuth HVSR at a equals the north-component HVSR of "
         "the sensor turned by a and is 180-degree periodic, the azimuthal result is bit for bit the stack of "
         "single-azimuth results, RotDpp is monotone in the percentile and inside (at 0/100 on) the single-azimuth "
         "envelope, the squared-average and total-horizontal-energy families and diffuse field are orientation "
         "invariant (geometric mean as the control that must change), and preprocess(orient=t) equals "
         "orient-then-preprocess.",
    note="Stated angle/azimuth/percentile alphabets, windows of 8-64 samples; 'orient to a' read relative to the "
         "current orientation; azimuthal vs single compared at the FFT length the azimuthal run writes back; RotD0=min "
         "and RotD100=max additionally required.")

CHECKS["C09"] = dict(
    engine="E1", section="4/C09",
    text="BFS (depth 2 quick / 3 thorough) over histories of process() calls for every processing path (5 "
         "frequency-domain formulas, single azimuth, RotDpp, azimuthal, diffuse field, smoothed and raw PSD) x Tukey "
         "widths {0, 0.1, 0.5} x FFT requests {None, {'n': None}, {'n': 128}}, interleaved with in-place edits of the "
         "held settings objects and of the recordings; every process() transition is judged: recordings bit-identical "
         "to a deep snapshot (samples, dt, orientation, metadata), result bit-identical to the same call on pristine "
         "objects of the same FFT length, identical on immediate and later repetition with the same settings object; "
         "after every operation all earlier results are re-read (frequency, amplitude, masks, peaks, azimuths, meta).",
    note="One genuine defect (re-resolution of fft n=None on the second call) is recorded in known_findings.json under a "
         "key specific to that history class; a result difference between calls that saw different sample data is "
         "attributed to the inputs-modified finding; module-global state affecting judged and reference calls alike is "
         "outside a differential oracle (C01 covers absolute values, C19 per-process state).")
CHECKS["C15"] = dict(
    engine="E1", section="4/C15",
    text="BFS over every history of <=2 (quick) / <=3 (thorough, last level restricted) operations from {construct any "
         "of the 8 settings classes, assign an attribute from a value menu (lists, tuples, arrays, None, scalars, every "
         "registered method and alias name), mutate a list/array/dict-valued attribute in place, save, load, read "
         "through the type-dispatching reader, (pre)process tiny recordings} on up to three live settings objects, "
         "each root in its own forked process; on every transition all other live objects must be unchanged, in every "
         "state freshly constructed objects of all eight classes must equal the defaults recorded at start and a "
         "plain-dict model must equal every live object; every Save is read back both ways and must give the same "
         "class, element-wise equal content and a bit-identical (pre)processing result.",
    note="instrument_transfer_function stays None; *_method/version attributes are not reassigned; Load only between "
         "objects of the same class; states with corrupted class defaults are reported and not expanded.")

# ---- additions made while strengthening the checks against independently seeded changes ----
_EXTRA = {
    "C14": " Family twin: layouts with two sensors 2^-10..2^-30 pitches apart (weights at a conditioning-aware tolerance, their total at 1e-9); family session: histories of requests on two live spatial objects (boundary as list / fresh array / one array overwritten in place, refused requests in between), the last request of every history judged on its own arguments. Session boundaries with the same bounding box and another shape; family outline: chamfered and closed-ring outlines, every start point and direction, translations up to 1e4 extents. Root kind aperture: arrays shrunk by 2^-10..2^-17 inside the four boundaries (boundary 1.5e3..4e5 apertures), three scales, optionally one sensor 1e3/1e5 extents outside the boundary.",
    "C01": " Windows of 32768/32769/40000 samples are judged with a sparse explicit-DFT reference (FFT length must cover the window); azimuth sets include a non-ascending one; FFT requests with a norm keyword, integer-typed centre frequencies and common factors of 1e-18/1e18 are included. Cases with three windows of different length in one call (longest first / middle / last; the reference tapers every window over its own length) are included. Windows sampled at 1/64 and 1/128 s (FFT bins exactly on window ends: a sample on the end of a closed window counts) and ordered pairs / triples of windows over {500, 32768, 40000} samples in one call are included. Record lists with two or three time steps in one call, every order of length 3-4 (grouping permutations that are 3- and 4-cycles included): each row against the reference of its own record.",
    "C02": " Integer and float32 spectra must give the float64 result; pairs of FFT grids with equal size but different spacing run inside one root (state carried between grids). Centre vectors with the same length and end points as the vector before them ('warp') are included. Exact ties are judged: a sample exactly on the end of a closed window (rectangular and Konno-Ohmachi kernels, decided in rational arithmetic) is inside it; family call-size: a stack repeated to 2^8..2^20 entries per call (row i must equal row i mod rows) and centre vectors repeated to 2^6..2^12 entries.",
    "C03": " Descending/unsorted centre-frequency sets and pool members scaled by 1e9/1e-9 are included. The 'alone' references are computed in processes without history (engine/pristine.py), so process-global state cannot make joint and alone runs wrong alike. A fourth time step 1/100.4 s (same whole sampling rate and sample counts as 0.01 s) and a fifth 5 ppm below 0.01 s (time steps are distinguished as floats, never by tolerance) are in the pool.",
    "C04": " Tiny (< 0.1 degree) re-orientations, step compositions, orient-modify-orient histories and non-ascending azimuth sets are included. The orientation target of preprocess is spelled with every real number type (int, float, np.int64, np.int32, np.float32, np.float64, 0-d array). Every recording is built with metadata carried over from a recording at another orientation. Family mixed: lists of recordings with unequal time steps (words over three time steps), the time-step option omitted or explicit, the settings omitted entirely - azimuthal == stack of single azimuths and the RotDpp bounds on such lists; nearly tied orientations (0.06 -> 0) in the preprocess family.",
    "C05": " Histories are also explored in touch mode (statistics read after every operation) with manual re-acceptance and compound mask edits; a window with exactly zero amplitude is included. Windows that differ by parts per million ('near' roots, rtol 1e-6) are included; every array an accessor returns is overwritten in place and every options dict passed is re-used by the harness before the state is judged (the caller owns them). Range updates whose peak options scipy refuses are in the menu (the object must stay as it was); the range the object has recorded is part of the canonical state. Every spelling of a distribution that an accessor accepts gives the numbers of the canonical spelling; the lognormal mean curve is judged where an accepted window holds an exact zero (geometric mean 0); a 1500-window record is explored in touch mode.",
    "C06": " Calls with find_peaks_kwargs={} (entry peak search takes the early return, earlier rejections persist) and 9-11-window lop-sided sets are included. The alias spelling 'log-normal' and rejections driven through one caller-owned range list (edited in place between calls) are in the menu; after every call the per-window peaks must be those of the range of that call. Range updates whose peak options are refused (they raise) are in the menu: the rejection that follows must not see them.",
    "C07": " In-memory inputs, one-shot iterables and other containers for read()'s per-recording arguments, mixed-format lists sharing one options dict and non-builtin real numbers given once are included. Same-path histories (failed read, file rewritten, read again; content replaced) are explored per format. A family in which every format carries the same file extension (.dat/.txt/none; ordered pairs and triples of formats) is included. Per-recording orientation lists with None entries (all 2^m - 1 lists) and recordings whose traces differ in sampling rate (all orders: a refusal is accepted, a returned recording must carry every channel's own time step) are included. PEER numbers spelled with two and four integer digits, and horizontal azimuth codes equal modulo 360 (360/0/000), which must be refused as a duplicated component.",
    "C08": " Two grids with equal length and end points are explored one after the other inside one root with limits in absolute Hz; touch mode. Amplitude transforms (ripple of 1e-6 on a level of 2, amplitudes of order 1e-9 and 1e12), range limits of every real number type and histories that re-use one caller-owned range list are included. Refused peak options (the object must stay as it was), limits of exactly zero, range updates given to one azimuth through the member object, every curve over {1,2,3}^7 as a window of a traditional result, and pairs of LIVE objects on grids with equal length and end points (each update applied to both, either order) are included. mean_curve_peak() of a diffuse-field object with the range omitted is judged against the documented default range.",
    "C09": " A numpy array inside a recording's meta and a near-equal time step (0.01 vs float32(0.01)) are included. Fresh-state references are computed in processes without history; centre frequencies are ndarrays or lists; non-default time-step policies are in the menu. An interleaved scenario is run in a process without history: the call; unrelated calls on other data (a 40000-sample window, a taper 0.4 % wider) and three legitimately refused calls on the caller's recordings; the same call again with the same and with a pristine settings object. Live histories (the same objects throughout, no copies: 20 owner's edits of a recording in place and by replacement between calls, an interleaved call with another taper), recordings of different length in one call and 300 recordings in one call are included.",
    "C11": " Touch mode, manual re-acceptance and compound mask edits (same total, other split), single-frequency curve sets, a finely spaced grid and zero-amplitude windows are included. 'Near' roots (ppm-scaled windows), the alias spelling 'log-normal', returned arrays overwritten in place, and a model of manual edits (only the addressed entry of the addressed azimuth may change) are included. Duplicate azimuth values, 0 together with 180, swaps of which window of ONE azimuth is rejected, and refused range updates are included. A root with 256 azimuths x 257 windows (azimuths x accepted windows > 2^16) is included.",
    "C12": " All four (distribution_mc, distribution_fn) pairs, kwargs that change the selected peak, rejections with a bounded range and non-increasing azimuth sets are included; touch mode. Azimuths a few hundredths of a degree apart, a two-peak set for which the peak options select the lower peak at the default range, and options dicts re-used by the caller are included. A rejection that is legitimately refused half-way through the azimuths (then written) is included. write() with the distributions omitted must produce the file of the documented defaults; the distributions remembered from the last rejection are part of the canonical state.",
    "C10": " window_length_in_seconds=None (unsplit) and windows of more than two million sample intervals are included. Family history: unrelated objects are filtered with other filter orders, split and detrended first, and the windows are compared with those of a process without history; family mixed-dt: lists of recordings with time steps a, b, a. Family tiling-long (about 1200 windows per record, durations that are not exact in binary) and family orient (every relation between deployed heading and target, half turns included, judged with the independent rotation reference) are included. Family reoriented: records whose current heading differs from the deployed one (re-oriented by the user or by an earlier preprocess on the same object) preprocessed back to the deployed heading, to the current one, by a whole turn, or without orientation; the heading is modelled by the harness.",
    "C17": " Amplitude scales 1e-9, 1e-12 and 1e9 are included (every tolerance is relative; the diffuse-field ratio must be scale invariant). Parts C/D: use / edit / use (and use / edit / use / edit / use) histories on ONE settings object for process() and preprocess(), edits by assignment, item assignment or load(), optionally a refused call in between; the last use is judged by the fresh-object oracles. Part E: 255..513 windows in one call with four energy profiles (Parseval, Welch mean of single-window PSDs, scale).",
    "C13": " Amplitude factor 1e-8 and window pairs with equal sample count but different time step are included. Amplitude factors 1e-20/1e20, lists of windows of different length (family 'unequal') and a manual rejection on one azimuth after the call (the other azimuths keep the selection) are included. Family history: every sequence of up to 3 (quick) / 4 (thorough) calls over 15 operations, some of them refused (too long STA/LTA, a too-short window at each list position, a non-existent component), on objects with fresh or pre-set masks: a refused call must leave the attached object's masks as they were. Family curves: attached objects holding curves without a peak (every assignment of peaked / monotone / flat curves to the windows, masks as hvsrpy leaves them).",
    "C15": " Loads into objects that already hold other (richer) content are checked for every class. Objects constructed from values that the caller, another settings object or a sibling still holds must not share them (family 'construct-from'). Sequences of length 1 and 0 are in the value menus; family inplace-edit: every list/dict/array reachable from an object (found by inspection, 'attrs' included) is edited in place with every operation of a per-type menu while bystander objects of all classes made before and after must not change.",
    "C16": " sigma_f = 0 and pairs of grids with equal length, end points and f0 sample (same explicit range, one process) are included. A peak of prominence 1e-7 (flank kind 'shelf') is included; verbose calls pass the range as a list, which must afterwards still hold what the caller wrote. Ranges given as (high, low), ranges whose limit is next to the peak, and a grid / standard-deviation curves that put the peaks of mean x sigma and mean / sigma one sample inside and outside either edge of the criterion-iv band are included. Roots whose first sample / shoulder ties the peak amplitude, flat tops across a band edge (any sample of the run is accepted as the peak), and search limits beyond the sampled band. Integer-valued curves handed over as int64/int32/int16/uint8 arrays must give the verdicts of the same values in float64.",
    "C18": " Touch mode: the recording is checkpointed to disk after every operation. Orientations of NumPy scalar types, returned time vectors shifted in place by the caller, and trims 1e5 time steps into records of 270000-400001 samples are included. The same TimeSeries object handed to the constructor for several components (all five partition patterns; such recordings are also search roots) and pairs of fresh objects trimmed back to back with identical arguments (lengths x time steps, both kinds) are included. The boundary sizes of the split window length (whole record, minus one sample, longer than the record, one interval) are included for both classes. Trim ends 5e-10 and 2e-12 (relative) beyond the last sample must be refused (only an end within 1e-13 of the last sample time is left undecided).",
    "C19": " Mixed --distribution_mc/--distribution_fn runs and two high sampling rates 5.9e-6 s apart (short windows) are included. A settings variant with a nested fft_settings dict is included; the quick file set mixes sampling rates that share one padded FFT length. PSD-style preprocessing settings files (differentiate, filter, explicit FFT length) are in the settings alphabet. Settings files with an empty fft_settings dict and with {'n': null}, and five spellings of the input names on the command line (each with its own reference) are included.",
    "C20": " The default call draws the live object of the history, touch mode draws it after every operation, manual re-acceptance and compound mask edits are in the menu. Figures interrupted half-way (RuntimeError and KeyboardInterrupt injected inside the drawing), the meshes handed to contourf / plot_surface (every azimuth's row is that azimuth's curve; azimuths stored out of order) and same-azimuth swaps of the rejected window between two drawings of one object are included. An accepted window 30 times stronger than the others (negative -1 sigma curve), range updates with peak options, recordings with nan gaps and independent distributions in the azimuthal summary are included. Calls refused through the second argument (recordings or masks of the wrong length, the wrong kind of result) are made on the live object of every state and judged by the read-only oracle.",
}
for _k, _v in _EXTRA.items():
    CHECKS[_k]["text"] = CHECKS[_k]["text"] + _v

NOT_APPLICABLE = []

PENDING = ["C01", "C02", "C03", "C04", "C05", "C06", "C07", "C09", "C10", "C11", "C12", "C13",
           "C14", "C15", "C16", "C17", "C18", "C19", "C20"]


def main():
    checks = []
    for pid in sorted(CHECKS):
        c = CHECKS[pid]
        eng = c["engine"]
        checks.append(dict(
            property_id=pid,
            quick_cmd=f"cd /verif && /venv/bin/python -m hvmc.run {pid} --tier quick",
            thorough_cmd=f"cd /verif && /venv/bin/python -m hvmc.run {pid} --tier thorough",
            evidence_file=f"/verif/evidence/{pid}.json",
            replay_cmd_template=f"cd /verif && /venv/bin/python -m hvmc.run {pid} --replay {{path}}",
            engine=eng,
            level_claimed=dict(category="model_checking", text=c["text"], design_ref="DESIGN.md section " + c["section"]),
            level_note=c["note"],
            technique={"E1": E1, "E2": E2, "E3": E3}[eng],
        ))
    na = list(NOT_APPLICABLE)
    for pid in PENDING:
        if pid not in CHECKS:
            na.append(dict(property_id=pid,
                           reason="check not built yet in this session (planned, see DESIGN.md section 4); "
                                  "not a statement that the technique cannot apply"))
    m = dict(
        version=1,
        setup_cmd="cd /verif && /venv/bin/python -m hvmc.setup",
        hooks=dict(guard="HVSRPY_VERIF",
                   enable="no source hooks: checks import hvsrpy from /repo's working tree (editable install) and "
                          "observe it at the public API / by replacing module attributes from the harness",
                   baseline_off_cmd="cd /repo && /venv/bin/python -m pytest -ra -q -p no:cacheprovider --timeout=900 "
                                    "--continue-on-collection-errors",
                   source_commits=[],
                   add_only=True),
        engines=[
            dict(name="E1", path="hvmc/engine/explorer.py", kind_free_text=E1,
                 serves_properties=[p for p in sorted(CHECKS) if CHECKS[p]["engine"] == "E1"]),
            dict(name="E2", path="hvmc/engine/product.py", kind_free_text=E2,
                 serves_properties=[p for p in sorted(CHECKS) if CHECKS[p]["engine"] == "E2"]),
            dict(name="E3", path="hvmc/engine/vpool.py", kind_free_text=E3,
                 serves_properties=[p for p in sorted(CHECKS) if CHECKS[p]["engine"] == "E3"]),
        ],
        checks=checks,
        notes="All checks execute the real hvsrpy code from /repo; see DESIGN.md. Known genuine defects that were not "
              "repaired are listed in known_findings.json and announced as KNOWN-FINDING lines.",
        not_applicable=na,
    )
    import jsonschema
    with open("/root/.vp/MANIFEST.schema.json") as f:
        jsonschema.validate(m, json.load(f))
    with open(os.path.join(VERIF, "MANIFEST.json"), "w") as f:
        json.dump(m, f, indent=1)
        f.write("\n")
    print("MANIFEST.json:", len(checks), "checks,", len(na), "not_applicable")


if __name__ == "__main__":
    main()
