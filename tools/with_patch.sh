#!/bin/bash
# usage: tools/with_patch.sh <patch.diff> <command...>
# Copies /repo/hvsrpy to a scratch dir outside /repo and /verif, applies the
# patch there and runs the command with HVMC_REPO pointing at the copy.
# The copy is removed afterwards.  Nothing in /repo is touched.
set -u
patch=$(readlink -f "$1"); shift
d=$(mktemp -d /tmp/hvmc-mut-XXXXXX)
trap 'rm -rf "$d"' EXIT
mkdir -p "$d/repo"
cp -r /repo/hvsrpy "$d/repo/hvsrpy"
rm -rf "$d/repo/hvsrpy/__pycache__"
( cd "$d/repo" && patch -p1 -s < "$patch" ) || { echo "patch failed"; exit 3; }
HVMC_REPO="$d/repo" "$@"
rc=$?
exit $rc
