#!/venv/bin/python
"""Merge meta.auto.json (written by eval_seeded.sh) with the hand-written notes below
into seeded/<id>/meta.json."""
import json
import os
import sys

VERIF = os.path.dirname(os.path.dirname(os.path.abspath(__file__)))
NOTES = json.load(open(os.path.join(VERIF, "seeded", "NOTES.json")))

for sid in sorted(os.listdir(os.path.join(VERIF, "seeded"))):
    d = os.path.join(VERIF, "seeded", sid)
    auto = os.path.join(d, "meta.auto.json")
    if not os.path.isfile(auto):
        continue
    m = json.load(open(auto))
    n = NOTES.get(sid, {})
    m["origin"] = "written by an independent sub-agent that saw only the property text and a scratch worktree of /repo"
    m["needs_to_manifest"] = n.get("needs", "see README.agent.md")
    m["change"] = n.get("change", "see README.agent.md")
    m["history"] = n.get("history", "detected by the quick tier as first built")
    m["what_was_run"] = ("tools/eval_seeded.sh: demo.py on a clean scratch worktree (exit 0) and with patch.diff applied "
                         "(exit 1); repository tests (non-notebook selection) with the patch; quick checks of the listed "
                         "properties against a patched copy of /repo/hvsrpy via tools/with_patch.sh (HVMC_REPO)")
    # a run that only produced C??:harness-error (the harness itself raised) is not a detection
    m["detected_by"] = [p for p, r in m["quick_checks_with_patch"].items() if r["exit"] == 1 and
                        any("harness-error" not in k for k in r["violation_keys"].split())]
    m["harness_errors_only"] = [p for p, r in m["quick_checks_with_patch"].items() if r["exit"] == 1 and
                                p not in m["detected_by"]]
    json.dump(m, open(os.path.join(d, "meta.json"), "w"), indent=1)
    print(sid, "detected by", m["detected_by"])
