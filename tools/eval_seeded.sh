#!/bin/bash
# usage: tools/eval_seeded.sh <mutant-dir> <seed-id> <PROP> [more PROPs to run...]
#   <mutant-dir> holds patch.diff, demo.py (and README.md) written by an independent agent.
# 1. confirms the claim in a scratch worktree outside /repo and /verif:
#      demo.py exits 0 on the clean tree and non-zero with the patch; the repository's
#      non-notebook tests pass with the patch (notebooks too with FULL=1);
# 2. runs the quick checks of the listed properties against a patched copy (HVMC_REPO);
# 3. stores everything as /verif/seeded/<seed-id>/ (patch.diff, demo.py, README.md, meta.json).
set -u
src=$(readlink -f "$1"); sid=$2; shift 2
props=("$@")
out=/verif/seeded/$sid
mkdir -p "$out"
cp "$src/patch.diff" "$out/patch.diff"
cp "$src/demo.py" "$out/demo.py" 2>/dev/null
cp "$src/README.md" "$out/README.agent.md" 2>/dev/null
wt=$(mktemp -d /tmp/seed-eval-XXXXXX)
trap 'git -C /repo worktree remove --force "$wt" >/dev/null 2>&1; rm -rf "$wt"' EXIT
rmdir "$wt"
git -C /repo worktree add --detach "$wt" HEAD -q || exit 3
cd "$wt"
PYTHONPATH=$wt timeout 600 /venv/bin/python "$out/demo.py" >"$out/demo_clean.log" 2>&1; demo_clean=$?
if ! git apply "$out/patch.diff" 2>"$out/apply.log"; then
  patch -p1 -s < "$out/patch.diff" >>"$out/apply.log" 2>&1 || { echo "PATCH DOES NOT APPLY"; cat "$out/apply.log"; exit 4; }
fi
PYTHONPATH=$wt timeout 600 /venv/bin/python "$out/demo.py" >"$out/demo_patched.log" 2>&1; demo_patched=$?
if [ "${FULL:-0}" = 1 ]; then sel=(test); else sel=(test -k "not notebook"); fi
PYTHONPATH=$wt timeout 1500 /venv/bin/python -m pytest -q -p no:cacheprovider --timeout=900 "${sel[@]}" >"$out/tests_patched.log" 2>&1
tests_rc=$?
failed=$(grep -E "^FAILED|^ERROR" "$out/tests_patched.log" | grep -v test_read_single_on_minishark | grep -v notebook_example_hvsr_cli | grep -v notebook_example_psd_and_self_noise | wc -l)
summary=$(tail -1 "$out/tests_patched.log")
cd /verif
declare -A res
for p in "${props[@]}"; do
  tools/with_patch.sh "$out/patch.diff" /venv/bin/python -m hvmc.run "$p" --tier quick --no-evidence --jobs "${JOBS:-8}" >"$out/check_$p.log" 2>&1
  res[$p]=$?
done
{
  echo "{"
  echo " \"id\": \"$sid\","
  echo " \"breaks_property\": \"${props[0]}\","
  echo " \"demo_exit_clean_tree\": $demo_clean,"
  echo " \"demo_exit_with_patch\": $demo_patched,"
  echo " \"existing_tests_with_patch\": {\"selection\": \"${sel[*]}\", \"unexpected_failures\": $failed, \"pytest_exit\": $tests_rc, \"summary\": \"$summary\"},"
  echo " \"quick_checks_with_patch\": {"
  first=1
  for p in "${props[@]}"; do
    keys=$(grep -o "key=[^ ]*" "$out/check_$p.log" | sort -u | head -8 | tr '\n' ' ')
    [ $first = 1 ] || echo ","
    first=0
    printf "  \"%s\": {\"exit\": %s, \"violation_keys\": \"%s\"}" "$p" "${res[$p]}" "$keys"
  done
  echo
  echo " }"
  echo "}"
} > "$out/meta.auto.json"
cat "$out/meta.auto.json"
