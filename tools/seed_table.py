#!/venv/bin/python
"""Writes seeded/INDEX.md: one row per independently seeded change, from seeded/*/meta.json."""
import json
import os

V = os.path.dirname(os.path.dirname(os.path.abspath(__file__)))
rows = []
for sid in sorted(os.listdir(os.path.join(V, "seeded"))):
    p = os.path.join(V, "seeded", sid, "meta.json")
    if not os.path.isfile(p):
        continue
    m = json.load(open(p))
    first = "caught as first built" if m["history"].startswith("detected by the quick tier") else m["history"]
    rows.append((sid, m["change"], m["needs_to_manifest"], ", ".join(m["detected_by"]) or "NOT DETECTED", first,
                 m["demo_exit_clean_tree"], m["demo_exit_with_patch"], m["existing_tests_with_patch"]["unexpected_failures"]))
with open(os.path.join(V, "seeded", "INDEX.md"), "w") as f:
    f.write("# Independently seeded property-breaking changes\n\n"
            "Each was written by a sub-agent that saw only the property text and a scratch worktree of /repo.\n"
            "Confirmed by tools/eval_seeded.sh: demo.py exits 0 on a clean scratch worktree and non-zero with the\n"
            "patch; the repository's tests (non-notebook selection) show no new failure with the patch; the quick\n"
            "checks named in 'caught by' exit 1 against a patched copy of /repo/hvsrpy.\n\n")
    missed = sum(1 for r in rows if not r[4].startswith("caught as first built"))
    f.write(f"{len(rows)} changes; {len(rows) - missed} caught by the check of their own property as first built; for the other {missed} the last "
            f"column says which check missed them at first (some were caught by another property's check) and what was strengthened; {sum(1 for r in rows if r[3] == 'NOT DETECTED')} are undetected now.\n\n")
    f.write("| id | change | needs | caught by | history |\n|---|---|---|---|---|\n")
    for r in rows:
        f.write("| " + " | ".join(str(x).replace("|", "\\|").replace("\n", " ") for x in r[:5]) + " |\n")
print(len(rows), "rows")
