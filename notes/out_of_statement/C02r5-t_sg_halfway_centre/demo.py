"""Savitzky-Golay at centre frequencies lying exactly half-way between two bins.

savitzky_and_golay() evaluates the quadratic/cubic least-squares kernel at the
bin nearest to each centre frequency (numpy.round: exact half-way cases go to
the even bin).  The reference below fits the cubic explicitly with polyfit.
"""
import sys
import numpy as np
from hvsrpy.smoothing import savitzky_and_golay, SMOOTHING_OPERATORS

n, dt = 64, 1/32                     # df = 0.5 Hz exactly
frq = np.fft.rfftfreq(n, dt)
df = frq[1] - frq[0]
rng = np.random.default_rng(7)
spec = rng.uniform(0.5, 2.0, size=(3, frq.size))
m = 7
half = (m - 1)//2
ncoeff = half + 1

def reference(fcs):
    out = np.zeros((spec.shape[0], fcs.size))
    for j, fc in enumerate(fcs):
        idx = int(np.round((fc - frq[0])/df))          # nearest bin, ties to even
        if idx < ncoeff or idx + ncoeff > frq.size:
            continue
        x = np.arange(-half, half + 1)
        for r in range(spec.shape[0]):
            p = np.polyfit(x, spec[r, idx-half:idx+half+1], 3)
            out[r, j] = np.polyval(p, 0.)
    return out

bad = 0
# on-grid and generic off-grid centres
for name, fcs in [("on-grid", frq.copy()),
                  ("off-grid 0.3", frq[:-1] + 0.3*df),
                  ("off-grid 0.7", frq[:-1] + 0.7*df),
                  ("half-way", frq[:-1] + 0.5*df)]:
    for fn in (savitzky_and_golay, SMOOTHING_OPERATORS["savitzky_and_golay"]):
        got = fn(frq, spec, fcs, m)
        exp = reference(fcs)
        if not np.allclose(got, exp, rtol=1e-9, atol=1e-12):
            k = np.argwhere(~np.isclose(got, exp, rtol=1e-9, atol=1e-12))[0]
            print(f"MISMATCH [{name}] fc={fcs[k[1]]!r} row={k[0]}: got {got[tuple(k)]!r}, "
                  f"expected {exp[tuple(k)]!r} (bin {np.round(fcs[k[1]]/df):.0f})")
            bad += 1
if bad:
    print("savitzky_and_golay does not evaluate the kernel at the nearest (ties-to-even) bin")
    sys.exit(1)
print("ok")
