"""C17 demo: each component's PSD satisfies Parseval on its own frequency axis.

The three ``Psd`` objects returned by PSD processing (ns, ew, vt) are independent
results.  Re-expressing ONE of them in place in other units (here: ns as a density
per rad/s over angular frequency) must leave the other two untouched, so that they
still account for the mean-square of their tapered windows.
Exit 0 when that holds, 1 otherwise.
"""
import sys
import warnings

import numpy as np
from scipy.signal.windows import tukey

import hvsrpy

warnings.simplefilter("ignore")

DT = 0.005
N = 2001
WIDTH = 0.3


def make_records(n_windows=4):
    rng = np.random.default_rng(2017)
    records = []
    for _ in range(n_windows):
        comps = [hvsrpy.TimeSeries(a * rng.normal(size=N), DT) for a in (1.0, 2.0, 0.5)]
        records.append(hvsrpy.SeismicRecording3C(*comps))
    return records


def expected_interior_power(records, component, n):
    """Mean-square of the tapered windows (over the taper's mean-square) that is
    not carried by the 0 Hz and Nyquist bins, averaged over windows."""
    taper = tukey(N, alpha=WIDTH)
    u = np.mean(taper**2)
    total = 0.
    for record in records:
        x = getattr(record, component).amplitude * taper
        spec = np.fft.rfft(x, n)
        total += (np.sum(x**2) - (abs(spec[0])**2 + abs(spec[-1])**2) / n) / (N * u)
    return total / len(records)


def parseval_error(psd, expected):
    df = psd.frequency[1] - psd.frequency[0]
    return abs(np.sum(psd.amplitude[1:-1]) * df / expected - 1)


def main():
    ok = True
    records = make_records()
    reference = make_records()

    settings = hvsrpy.settings.PsdProcessingSettings(window_type_and_width=["tukey", WIDTH])
    settings.smoothing = None
    psd = hvsrpy.process(records, settings)
    n = settings.fft_settings["n"]

    for comp in ("ns", "ew", "vt"):
        err = parseval_error(psd[comp], expected_interior_power(reference, comp, n))
        if err > 1e-9:
            print(f"{comp}: Parseval violated on fresh result, rel. err {err:.3e}")
            ok = False

    # the user re-expresses the ns density over angular frequency, in place.
    snapshot = {c: (psd[c].frequency.copy(), psd[c].amplitude.copy()) for c in ("ew", "vt")}
    psd["ns"].frequency *= 2 * np.pi
    psd["ns"].amplitude /= 2 * np.pi

    for comp in ("ew", "vt"):
        frq, amp = snapshot[comp]
        if not np.array_equal(psd[comp].frequency, frq):
            print(f"{comp}: frequency axis changed when the ns result was edited "
                  f"(first bin width {frq[1]-frq[0]:.6g} Hz -> {psd[comp].frequency[1]-psd[comp].frequency[0]:.6g})")
            ok = False
        if not np.array_equal(psd[comp].amplitude, amp):
            print(f"{comp}: amplitude changed when the ns result was edited")
            ok = False
        err = parseval_error(psd[comp], expected_interior_power(reference, comp, n))
        if err > 1e-9:
            print(f"{comp}: Parseval violated after the ns result was edited, rel. err {err:.3e}")
            ok = False

    # same with smoothing on: editing one result must not move the others.
    fcs = np.geomspace(1, 50, 25)
    settings = hvsrpy.settings.PsdProcessingSettings(
        window_type_and_width=["tukey", WIDTH],
        smoothing=dict(operator="konno_and_ohmachi", bandwidth=40, center_frequencies_in_hz=fcs))
    psd = hvsrpy.process(make_records(), settings)
    psd["vt"].frequency *= 2 * np.pi
    psd["vt"].amplitude /= 2 * np.pi
    for comp in ("ns", "ew"):
        if not np.allclose(psd[comp].frequency, fcs, rtol=1e-12, atol=0):
            print(f"{comp} (smoothed): frequency axis changed when the vt result was edited")
            ok = False
    again = hvsrpy.process(make_records(), settings)
    if not np.allclose(again["ns"].frequency, fcs, rtol=1e-12, atol=0):
        print("smoothed PSD of a second call is no longer at the requested centre frequencies")
        ok = False

    if not ok:
        print("FAIL: PSD results of the components are not independent")
        return 1
    print("OK")
    return 0


if __name__ == "__main__":
    sys.exit(main())
