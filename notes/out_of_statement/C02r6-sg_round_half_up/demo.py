"""Savitzky-Golay: a centre frequency lying exactly midway between two bins.

The operator evaluates the kernel at the spectral sample nearest to each centre
frequency; exact ties are resolved to the even bin (numpy rounding).  So for an
even bin k, smoothing at f[k] + df/2 must equal smoothing at f[k] itself, and
for an odd bin k smoothing at f[k] + df/2 must equal smoothing at f[k+1].
Uses only hvsrpy.smoothing.SMOOTHING_OPERATORS.
"""
import sys
import numpy as np
from hvsrpy.smoothing import SMOOTHING_OPERATORS

sg = SMOOTHING_OPERATORS["savitzky_and_golay"]

n, dt = 128, 1.0                      # FFT grid, df = 1/128 (exact in binary)
frequencies = np.fft.rfftfreq(n, dt)  # 65 bins incl. 0 Hz
df = frequencies[1]
rng = np.random.default_rng(7)
spectrum = rng.uniform(0.5, 2.0, size=(3, frequencies.size))

bad = []
for bandwidth in (5, 9):
    ks = np.arange(10, 50)
    mid = frequencies[ks] + df/2                 # exactly k + 0.5 bins
    expected_bin = np.where(ks % 2 == 0, ks, ks + 1)
    got = sg(frequencies, spectrum, mid, bandwidth)
    want = sg(frequencies, spectrum, frequencies[expected_bin], bandwidth)
    # independent direct evaluation of the published quadratic/cubic kernel
    m = bandwidth
    h = (m - 1)//2
    i = np.arange(-h, h + 1)
    w = (3*m*m - 7 - 20*i*i)/4 / (m*(m*m - 4)/3)
    ref = np.stack([spectrum[:, b-h:b+h+1] @ w for b in expected_bin], axis=1)
    if not np.allclose(want, ref, rtol=1e-12, atol=0):
        bad.append(f"bandwidth={bandwidth}: on-grid values differ from the kernel")
    wrong = np.flatnonzero(~np.all(np.isclose(got, ref, rtol=1e-12, atol=0), axis=0))
    if wrong.size:
        bad.append(f"bandwidth={bandwidth}: mid-bin centres at bins {ks[wrong][:6].tolist()}"
                   f"(+0.5) are not evaluated at the nearest-even bin; "
                   f"max abs err {np.max(np.abs(got-ref)):.3g}")

if bad:
    print("PROPERTY C02 VIOLATED")
    for b in bad:
        print("  " + b)
    sys.exit(1)
print("ok")
sys.exit(0)
