"""C06 demo: a window whose peak frequency is EXACTLY mean +- n*std must be rejected.

Cox et al. (2020) / hvsrpy keep a window only if  lower < fn < upper  (strict).
Exits 0 when the decisions match the published rule, 1 otherwise.
"""
import sys
import logging
import numpy as np
import hvsrpy

logging.disable(logging.CRITICAL)

problems = []


def build(peak_idx, scale=1.0):
    frequency = np.arange(0, 10, 1, dtype=float)
    amplitude = np.ones((len(peak_idx), len(frequency)))
    amplitude[np.arange(len(peak_idx)), peak_idx] = 2
    return hvsrpy.HvsrTraditional(frequency, amplitude*scale)


def reference(peaks, n):
    """One pass of the published rule with normal statistics (sample std)."""
    peaks = np.asarray(peaks, dtype=float)
    mean = peaks.mean()
    std = peaks.std(ddof=1)
    return (peaks > mean - n*std) & (peaks < mean + n*std), mean, std


# 9 windows, fn = 2 Hz (7x), 1 Hz and 3 Hz -> mean 2, sample std 0.5; n=2 -> the bounds
# are exactly 1.0 and 3.0 in floating point, i.e. two windows sit ON the bounds.
cases = [
    ("9 windows n=2", [1, 3] + [2]*7, 2),
    ("9 windows n=2 reordered", [2, 2, 3, 2, 2, 1, 2, 2, 2], 2),
]
for label, idx, n in cases:
    idx = np.array(idx)
    expected, mean, std = reference(idx, n)
    # make sure the case really sits on the boundary in floating point.
    if not (mean - n*std == 1.0 and mean + n*std == 3.0):
        continue
    for az in (False, True):
        hvsr = build(idx)
        obj = hvsrpy.HvsrAzimuthal([hvsr], [0]) if az else hvsr
        hvsrpy.frequency_domain_window_rejection(obj, n=n, distribution_fn="normal",
                                                 distribution_mc="normal")
        got = obj.hvsrs[0].valid_window_boolean_mask if az else obj.valid_window_boolean_mask
        if not np.array_equal(got, expected):
            problems.append(f"{label} (azimuthal={az}): fn={idx.tolist()} bounds=(1.0, 3.0) "
                            f"expected accept mask {expected.astype(int).tolist()} "
                            f"got {np.asarray(got).astype(int).tolist()}")

if problems:
    print("C06 BROKEN: windows with fn exactly on mean +- n*std are kept (must be removed)")
    for p in problems:
        print("  -", p)
    sys.exit(1)
print("ok")
sys.exit(0)
