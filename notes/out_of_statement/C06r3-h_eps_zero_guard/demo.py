"""C06 demo: the rejection loop may only stop when the relative change of
|mean fn - mean-curve peak| and the change of the standard deviation are both
below 0.01 (or a quantity is exactly zero, as in the published code).

A set of windows whose peak frequencies are placed symmetrically about a grid
frequency has a mean fn that differs from the mean-curve peak by one unit of
roundoff - tiny, but not zero.  The published algorithm then sees a relative
change of 100 % after the first pass (the difference becomes exactly 0), keeps
going and removes a second pair of outliers.

The stepwise reference below uses only the public statistics of the object
(mean_fn_frequency, std_fn_frequency, nth_std_fn_frequency, mean_curve_peak)
so that it sees exactly the same floating point values as the library.

Exit 0: library == stepwise reference.  Exit 1: they differ.
"""
import sys
import warnings

import numpy as np

import hvsrpy

warnings.simplefilter("ignore")

EPS = np.finfo(float).eps
FREQUENCY = np.arange(1, 41)*0.1
CENTRE = 19  # FREQUENCY[19] == 2.0


def build(indices):
    amplitude = np.ones((len(indices), len(FREQUENCY)))
    amplitude[np.arange(len(indices)), np.array(indices)] = 2.0
    return hvsrpy.HvsrTraditional(FREQUENCY, amplitude)


def stepwise_reference(hvsr, n, max_iterations, dist_fn, dist_mc):
    """Cox et al. (2020) driven through the public statistics of ``hvsr``."""
    assert hvsr.valid_peak_boolean_mask.all()
    peaks = np.array(hvsr.peak_frequencies)
    for it in range(1, max_iterations+1):
        m0 = hvsr.mean_fn_frequency(dist_fn)
        s0 = hvsr.std_fn_frequency(dist_fn)
        d0 = abs(m0 - hvsr.mean_curve_peak(dist_mc)[0])
        lo = hvsr.nth_std_fn_frequency(-n, dist_fn)
        hi = hvsr.nth_std_fn_frequency(+n, dist_fn)
        keep = hvsr.valid_peak_boolean_mask & (peaks > lo) & (peaks < hi)
        hvsr.valid_peak_boolean_mask = np.array(keep)
        hvsr.valid_window_boolean_mask = np.array(keep)
        m1 = hvsr.mean_fn_frequency(dist_fn)
        s1 = hvsr.std_fn_frequency(dist_fn)
        d1 = abs(m1 - hvsr.mean_curve_peak(dist_mc)[0])
        if d0 == 0 or s0 == 0 or s1 == 0:
            return it
        if abs(d1 - d0)/d0 < 0.01 and abs(s1 - s0) < 0.01:
            return it
    return max_iterations


def find_configuration():
    """Deterministic search for a symmetric layout with a roundoff-sized,
    non-zero |mean fn - mean-curve peak| before the first pass and which the
    published algorithm needs two passes for."""
    rng = np.random.default_rng(2020)
    for _ in range(5000):
        core = [CENTRE]*int(rng.integers(4, 8))
        side = int(rng.integers(2, 5))
        core += [CENTRE-1]*side + [CENTRE+1]*side
        far = int(rng.integers(13, 19))
        mid = int(rng.integers(6, 10))
        indices = core + [CENTRE-far, CENTRE+far, CENTRE-mid, CENTRE+mid]
        indices = [int(i) for i in rng.permutation(indices)]
        probe = build(indices)
        d0 = abs(probe.mean_fn_frequency("normal") - probe.mean_curve_peak("normal")[0])
        if not (0 < d0 <= EPS):
            continue
        ref = build(indices)
        ref_it = stepwise_reference(ref, 2, 50, "normal", "normal")
        n_rejected = int(np.sum(~ref.valid_window_boolean_mask))
        if ref_it >= 2 and n_rejected == 4:
            return indices, d0, ref, ref_it
    return None


def main():
    found = find_configuration()
    if found is None:
        print("could not construct the roundoff configuration on this platform; nothing checked")
        return 0
    indices, d0, ref, ref_it = found

    hvsr = build(indices)
    it = hvsrpy.frequency_domain_window_rejection(hvsr, n=2, max_iterations=50,
                                                  distribution_fn="normal",
                                                  distribution_mc="normal")
    same_mask = np.array_equal(hvsr.valid_window_boolean_mask, ref.valid_window_boolean_mask) and \
        np.array_equal(hvsr.valid_peak_boolean_mask, ref.valid_peak_boolean_mask)
    if same_mask and it == ref_it:
        print(f"ok: {it} iterations, {int(np.sum(~hvsr.valid_window_boolean_mask))} windows rejected "
              f"(|mean fn - mean-curve peak| before pass 1 = {d0:.3e})")
        return 0

    print("C06 BROKEN: the loop stopped although the relative change of "
          "|mean fn - mean-curve peak| was not below 0.01 and nothing was exactly zero")
    print(f"  peak frequencies             : {np.round(FREQUENCY[np.array(indices)], 1)}")
    print(f"  |mean fn - mc peak| (pass 1) : {d0:.3e}  (non-zero)")
    print(f"  library   : {it} iteration(s), accepted = {hvsr.valid_window_boolean_mask.astype(int)}")
    print(f"  published : {ref_it} iteration(s), accepted = {ref.valid_window_boolean_mask.astype(int)}")
    return 1


if __name__ == "__main__":
    sys.exit(main())
