"""C14 demo: the Voronoi weights belong to the layout the object was built with.

``HvsrSpatial(coordinates)`` is a container: once built, its weights for a
given boundary are the nearest-sensor area fractions of THAT sensor layout.
The caller is free to reuse / edit the array it passed in afterwards (here: the
same buffer is re-filled with the layout of the next survey).

Exit code 0: behaviour is correct.  Exit code 1: it is not.
"""

import sys

import numpy as np

import hvsrpy

failures = []

# Rectangular boundary (given as its four corners, in no particular order).
boundary = np.array([[0., 0.], [10., 8.], [10., 0.], [0., 8.]])

# Eight sensors in general position, the last-but-one lies outside.
layout_a = np.array([[1.3, 1.1], [8.7, 0.9], [4.9, 4.2], [2.2, 6.6],
                     [7.4, 6.9], [6.1, 2.3], [11.5, 3.0], [3.6, 3.1]])
# Layout of the next survey (same number of sensors).
layout_b = np.array([[0.7, 7.1], [9.1, 4.4], [5.5, 0.8], [2.9, 2.7],
                     [-1.0, 4.0], [6.6, 6.0], [8.2, 1.9], [4.1, 5.3]])


def grid_fractions(points, nx=500, ny=400):
    """Nearest-sensor area fractions of the rectangle on a fine grid."""
    xs = (np.arange(nx) + 0.5)*10/nx
    ys = (np.arange(ny) + 0.5)*8/ny
    gx, gy = np.meshgrid(xs, ys)
    d = (gx[..., None] - points[:, 0])**2 + (gy[..., None] - points[:, 1])**2
    nearest = np.argmin(d, axis=-1)
    return np.bincount(nearest.ravel(), minlength=len(points))/nearest.size


def inside(points):
    return [i for i, (x, y) in enumerate(points) if 0 < x < 10 and 0 < y < 8]


def check(label, weights, indices, layout):
    exp_idx = inside(layout)
    exp_w = grid_fractions(layout[exp_idx])
    ok = (list(indices) == exp_idx and len(weights) == len(exp_idx)
          and np.allclose(weights, exp_w, atol=2e-3)
          and abs(np.sum(weights) - 1) < 1e-9 and np.all(np.asarray(weights) >= 0))
    print(f"{label}\n    indices={list(indices)} (expected {exp_idx})\n"
          f"    weights={np.round(weights, 4)}\n"
          f"    expect ={np.round(exp_w, 4)}   {'ok' if ok else 'WRONG'}")
    if not ok:
        failures.append(label)


for kind in ("list", "float32 array", "float64 array"):
    if kind == "list":
        buffer = layout_a.tolist()
    elif kind == "float32 array":
        buffer = layout_a.astype(np.float32)
    else:
        buffer = layout_a.copy()
    layout_seen = np.array(buffer, dtype=float)

    spatial = hvsrpy.HvsrSpatial(buffer)
    w0, i0 = spatial.spatial_weights(boundary)
    check(f"[{kind}] weights right after construction", w0, i0, layout_seen)

    # The caller re-fills its own buffer with the next survey's layout.
    if kind == "list":
        buffer[:] = layout_b.tolist()
    else:
        buffer[:] = layout_b

    w1, i1 = spatial.spatial_weights(boundary)
    check(f"[{kind}] weights after the caller re-used its input buffer",
          w1, i1, layout_seen)
    if not np.array_equal(spatial.coordinates, layout_seen):
        print("    spatial.coordinates changed behind the object's back")
        failures.append(f"[{kind}] coordinates attribute changed")

if failures:
    print("\nFAIL: the object's weights/indices no longer describe the sensor "
          "layout it was built with:")
    for f in failures:
        print("   -", f)
    sys.exit(1)
print("\nOK")
sys.exit(0)
