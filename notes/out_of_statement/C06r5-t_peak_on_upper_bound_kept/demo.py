"""C06 demo: a window whose peak frequency lies EXACTLY on mean + n*std is removed,
just like one that lies exactly on mean - n*std (only peaks strictly inside the band
are kept).

The curve sets below are chosen so that, with a normal distribution for fn, the sample
mean and the sample standard deviation of the peak frequencies are exactly representable
and one window sits exactly on each bound.  The decisions of
``frequency_domain_window_rejection`` are compared with a plain NumPy transcription of
the algorithm.

exit 0 : decisions and iteration count agree (correct), exit 1 : they do not.
"""
import sys
import warnings

import numpy as np

import hvsrpy

warnings.simplefilter("ignore")

FREQUENCY = np.arange(0, 12, dtype=float)


def amplitudes(peak_indices):
    amplitude = np.ones((len(peak_indices), len(FREQUENCY)))
    amplitude[np.arange(len(peak_indices)), peak_indices] = 2
    return amplitude


def mean_curve_peak_frequency(amplitude, mask):
    # lognormal mean curve, highest interior local maximum (first one if tied).
    curve = np.exp(np.mean(np.log(amplitude[mask]), axis=0))
    best = None
    for i in range(1, len(curve) - 1):
        if curve[i] > curve[i-1] and curve[i] > curve[i+1]:
            if best is None or curve[i] > curve[best]:
                best = i
    return FREQUENCY[best]


def reference(peaks, amplitude, n, max_iterations=50):
    """Cox et al. (2020) with a normal distribution for fn."""
    mask = np.ones(len(peaks), dtype=bool)
    for iteration in range(1, max_iterations + 1):
        mean_b, std_b = np.mean(peaks[mask]), np.std(peaks[mask], ddof=1)
        diff_b = abs(mean_b - mean_curve_peak_frequency(amplitude, mask))
        lower, upper = mean_b - n*std_b, mean_b + n*std_b
        for i in np.flatnonzero(mask):
            if not (lower < peaks[i] < upper):
                mask[i] = False
        mean_a, std_a = np.mean(peaks[mask]), np.std(peaks[mask], ddof=1)
        diff_a = abs(mean_a - mean_curve_peak_frequency(amplitude, mask))
        if diff_b == 0 or std_b == 0 or std_a == 0:
            return iteration, mask
        if abs(diff_a - diff_b)/diff_b < 0.01 and abs(std_a - std_b) < 0.01:
            return iteration, mask
    return max_iterations, mask


CASES = [([2, 4, 4, 4, 4, 4, 4, 4, 6], 2),      # mean 4, std 1   -> bounds 2 and 6
         ([2, 4, 5, 5, 6, 8], 1.5),             # mean 5, std 2   -> bounds 2 and 8
         ([6, 4, 4, 4, 2, 4, 4, 4, 4], 2),      # first case, other window order
         ([4, 5, 8, 8, 8, 9], 1)]               # mean 7, std 2   -> bounds 5 and 9

bad = []
for peak_indices, n in CASES:
    amplitude = amplitudes(peak_indices)
    peaks = FREQUENCY[peak_indices]

    # the premise: some peak is exactly on the upper bound.
    upper = np.mean(peaks) + n*np.std(peaks, ddof=1)
    assert np.any(peaks == upper), "demo premise: a peak exactly on mean + n*std"

    want_iterations, want_mask = reference(peaks, amplitude, n)

    hvsr = hvsrpy.HvsrTraditional(FREQUENCY, amplitude)
    got_iterations = hvsrpy.frequency_domain_window_rejection(hvsr, n=n,
                                                              distribution_fn="normal",
                                                              distribution_mc="lognormal")
    if not np.array_equal(hvsr.valid_peak_boolean_mask, want_mask) or \
       not np.array_equal(hvsr.valid_window_boolean_mask, want_mask):
        bad.append(f"peaks {peaks}, n={n}: accepted windows are "
                   f"{hvsr.valid_peak_boolean_mask.astype(int)}, expected {want_mask.astype(int)} "
                   f"(upper bound is exactly {upper})")
    if got_iterations != want_iterations:
        bad.append(f"peaks {peaks}, n={n}: returned {got_iterations} iterations, "
                   f"expected {want_iterations}")

if bad:
    print("A window whose peak lies exactly on mean + n*std is not removed:")
    for line in bad:
        print("  " + line)
    sys.exit(1)
print("ok")
sys.exit(0)
